//! Verification shim for `futures-timer` (DESIGN.md 2.2).
//!
//! `Delay` stores its deadline (`now + dur` on the shim clock, saturating) and is
//! `Ready` iff the shim clock has reached it.  No timer thread, no waker registration
//! (harnesses poll by hand).
use core::future::Future;
use core::pin::Pin;
use core::task::{Context, Poll};
use core::time::Duration;

#[derive(Debug)]
pub struct Delay {
    /// `None` = a deadline beyond the representable range (never fires).
    deadline: Option<web_time::Instant>,
}

fn deadline(dur: Duration) -> Option<web_time::Instant> {
    web_time::Instant::now().checked_add(dur)
}

impl Delay {
    pub fn new(dur: Duration) -> Delay {
        Delay { deadline: deadline(dur) }
    }
    pub fn reset(&mut self, dur: Duration) {
        self.deadline = deadline(dur);
    }
    /// Shim-only accessor for assertions.
    pub fn verif_deadline(&self) -> Option<web_time::Instant> {
        self.deadline
    }
}

impl Future for Delay {
    type Output = ();
    fn poll(self: Pin<&mut Self>, _cx: &mut Context<'_>) -> Poll<()> {
        if self.deadline.map_or(false, |d| web_time::Instant::now() >= d) {
            Poll::Ready(())
        } else {
            Poll::Pending
        }
    }
}

//! Verification shim for `futures-timer` (DESIGN.md 2.2).
//!
//! `Delay` stores its deadline (`now + dur` on the shim clock, saturating) and is
//! `Ready` iff the shim clock has reached it.  No timer thread, no waker registration
//! (harnesses poll by hand).
use core::future::Future;
use core::pin::Pin;
use core::task::{Context, Poll};
use core::time::Duration;

#[derive(Debug)]
pub struct Delay {
    deadline_ns: u64,
}

fn deadline(dur: Duration) -> u64 {
    let n = dur.as_nanos();
    let n = if n > u64::MAX as u128 { u64::MAX } else { n as u64 };
    web_time::verif::now_ns().saturating_add(n)
}

impl Delay {
    pub fn new(dur: Duration) -> Delay {
        Delay { deadline_ns: deadline(dur) }
    }
    pub fn reset(&mut self, dur: Duration) {
        self.deadline_ns = deadline(dur);
    }
    /// Shim-only accessor for assertions.
    pub fn verif_deadline_ns(&self) -> u64 {
        self.deadline_ns
    }
}

impl Future for Delay {
    type Output = ();
    fn poll(self: Pin<&mut Self>, _cx: &mut Context<'_>) -> Poll<()> {
        if web_time::verif::now_ns() >= self.deadline_ns {
            Poll::Ready(())
        } else {
            Poll::Pending
        }
    }
}

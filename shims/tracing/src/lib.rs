//! Verification shim for `tracing` (DESIGN.md 2.2).
//!
//! Every logging macro expands to nothing (arguments are NOT evaluated),
//! `enabled!` is `false`, spans are transparent.  Used only by the Kani harness
//! crates; native replay links the real `tracing`.
#![allow(clippy::all)]

#[cfg(feature = "attributes")]
pub use tracing_attributes::instrument;

#[macro_export]
macro_rules! trace { ($($t:tt)*) => {{}}; }
#[macro_export]
macro_rules! debug { ($($t:tt)*) => {{}}; }
#[macro_export]
macro_rules! info { ($($t:tt)*) => {{}}; }
#[macro_export]
macro_rules! warn { ($($t:tt)*) => {{}}; }
#[macro_export]
macro_rules! error { ($($t:tt)*) => {{}}; }
#[macro_export]
macro_rules! event { ($($t:tt)*) => {{}}; }
#[macro_export]
macro_rules! enabled { ($($t:tt)*) => { false }; }
#[macro_export]
macro_rules! span { ($($t:tt)*) => { $crate::Span::none() }; }
#[macro_export]
macro_rules! trace_span { ($($t:tt)*) => { $crate::Span::none() }; }
#[macro_export]
macro_rules! debug_span { ($($t:tt)*) => { $crate::Span::none() }; }
#[macro_export]
macro_rules! info_span { ($($t:tt)*) => { $crate::Span::none() }; }
#[macro_export]
macro_rules! warn_span { ($($t:tt)*) => { $crate::Span::none() }; }
#[macro_export]
macro_rules! error_span { ($($t:tt)*) => { $crate::Span::none() }; }

#[derive(Clone, Copy, Debug, PartialEq, Eq, PartialOrd, Ord, Hash)]
pub struct Level(u8);
impl Level {
    pub const ERROR: Level = Level(1);
    pub const WARN: Level = Level(2);
    pub const INFO: Level = Level(3);
    pub const DEBUG: Level = Level(4);
    pub const TRACE: Level = Level(5);
}

pub mod level_filters {
    #[derive(Clone, Copy, Debug, PartialEq, Eq, PartialOrd, Ord, Hash)]
    pub struct LevelFilter(pub(crate) u8);
    impl LevelFilter {
        pub const OFF: LevelFilter = LevelFilter(0);
        pub const ERROR: LevelFilter = LevelFilter(1);
        pub const WARN: LevelFilter = LevelFilter(2);
        pub const INFO: LevelFilter = LevelFilter(3);
        pub const DEBUG: LevelFilter = LevelFilter(4);
        pub const TRACE: LevelFilter = LevelFilter(5);
    }
}
pub mod metadata {
    pub use crate::level_filters::LevelFilter;
    pub use crate::Level;
}

#[derive(Clone, Debug, Default)]
pub struct Span;

pub mod span {
    pub use crate::Span;
    pub struct Entered<'a>(pub(crate) core::marker::PhantomData<&'a ()>);
    pub struct EnteredSpan;
    #[derive(Clone, Debug, PartialEq, Eq, Hash)]
    pub struct Id(u64);
}

impl Span {
    pub const fn none() -> Span {
        Span
    }
    pub fn current() -> Span {
        Span
    }
    pub fn enter(&self) -> span::Entered<'_> {
        span::Entered(core::marker::PhantomData)
    }
    pub fn entered(self) -> span::EnteredSpan {
        span::EnteredSpan
    }
    pub fn in_scope<F: FnOnce() -> T, T>(&self, f: F) -> T {
        f()
    }
    pub fn follows_from<T>(&self, _from: T) -> &Self {
        self
    }
    pub fn record<Q: ?Sized, V>(&self, _field: &Q, _value: V) -> &Self {
        self
    }
    pub fn is_none(&self) -> bool {
        true
    }
    pub fn is_disabled(&self) -> bool {
        true
    }
    pub fn id(&self) -> Option<span::Id> {
        None
    }
}

pub mod instrument {
    use core::future::Future;
    use core::pin::Pin;
    use core::task::{Context, Poll};

    /// Transparent wrapper: polls the inner future directly.
    #[derive(Debug, Clone)]
    pub struct Instrumented<T> {
        inner: T,
    }
    impl<T> Instrumented<T> {
        pub fn inner(&self) -> &T {
            &self.inner
        }
        pub fn inner_mut(&mut self) -> &mut T {
            &mut self.inner
        }
        pub fn into_inner(self) -> T {
            self.inner
        }
    }
    impl<T: Future> Future for Instrumented<T> {
        type Output = T::Output;
        fn poll(self: Pin<&mut Self>, cx: &mut Context<'_>) -> Poll<Self::Output> {
            // SAFETY: structural pinning of the only field.
            unsafe { self.map_unchecked_mut(|s| &mut s.inner) }.poll(cx)
        }
    }
    pub trait Instrument: Sized {
        fn instrument(self, _span: crate::Span) -> Instrumented<Self> {
            Instrumented { inner: self }
        }
        fn in_current_span(self) -> Instrumented<Self> {
            Instrumented { inner: self }
        }
    }
    impl<T: Sized> Instrument for T {}
    pub trait WithSubscriber: Sized {}
}
pub use instrument::Instrument;

pub mod field {
    pub struct Empty;
}

//! Verification shim for `web-time` (DESIGN.md 2.2).
//!
//! `Instant` is a `u64` count of nanoseconds; `Instant::now()` returns whatever the
//! harness last stored with `verif::set_now`.  Arithmetic follows the documented
//! contract of `std::time::Instant` (`checked_*` return `None` on overflow/underflow,
//! `+`/`-` panic on it, `duration_since` saturates at zero).
#![allow(clippy::all)]

pub use core::time::Duration;
use core::ops::{Add, AddAssign, Sub, SubAssign};

pub mod verif {
    static mut NOW_NS: u64 = 1 << 40;
    static mut SYS_NS: u64 = 1_700_000_000_000_000_000;
    /// Set the value returned by `Instant::now()` (nanoseconds).
    pub fn set_now(ns: u64) {
        unsafe { NOW_NS = ns }
    }
    pub fn now_ns() -> u64 {
        unsafe { NOW_NS }
    }
    pub fn advance(ns: u64) {
        unsafe { NOW_NS = NOW_NS.checked_add(ns).expect("shim clock overflow") }
    }
    pub fn set_system_now(ns: u64) {
        unsafe { SYS_NS = ns }
    }
    pub fn system_now_ns() -> u64 {
        unsafe { SYS_NS }
    }
    pub fn instant_from_ns(ns: u64) -> super::Instant {
        super::Instant(ns)
    }
    pub fn instant_as_ns(i: super::Instant) -> u64 {
        i.0
    }
}

fn dur_ns(d: Duration) -> Option<u64> {
    let n = d.as_nanos();
    if n > u64::MAX as u128 {
        None
    } else {
        Some(n as u64)
    }
}
fn ns_dur(n: u64) -> Duration {
    Duration::new(n / 1_000_000_000, (n % 1_000_000_000) as u32)
}

#[derive(Clone, Copy, Debug, PartialEq, Eq, PartialOrd, Ord, Hash)]
pub struct Instant(u64);

impl Instant {
    pub fn now() -> Instant {
        Instant(verif::now_ns())
    }
    pub fn duration_since(&self, earlier: Instant) -> Duration {
        self.checked_duration_since(earlier).unwrap_or_default()
    }
    pub fn checked_duration_since(&self, earlier: Instant) -> Option<Duration> {
        self.0.checked_sub(earlier.0).map(ns_dur)
    }
    pub fn saturating_duration_since(&self, earlier: Instant) -> Duration {
        self.checked_duration_since(earlier).unwrap_or_default()
    }
    pub fn elapsed(&self) -> Duration {
        Instant::now().duration_since(*self)
    }
    pub fn checked_add(&self, d: Duration) -> Option<Instant> {
        dur_ns(d).and_then(|n| self.0.checked_add(n)).map(Instant)
    }
    pub fn checked_sub(&self, d: Duration) -> Option<Instant> {
        dur_ns(d).and_then(|n| self.0.checked_sub(n)).map(Instant)
    }
}
impl Add<Duration> for Instant {
    type Output = Instant;
    fn add(self, d: Duration) -> Instant {
        self.checked_add(d).expect("overflow when adding duration to instant")
    }
}
impl AddAssign<Duration> for Instant {
    fn add_assign(&mut self, d: Duration) {
        *self = *self + d;
    }
}
impl Sub<Duration> for Instant {
    type Output = Instant;
    fn sub(self, d: Duration) -> Instant {
        self.checked_sub(d).expect("overflow when subtracting duration from instant")
    }
}
impl SubAssign<Duration> for Instant {
    fn sub_assign(&mut self, d: Duration) {
        *self = *self - d;
    }
}
impl Sub<Instant> for Instant {
    type Output = Duration;
    fn sub(self, o: Instant) -> Duration {
        self.duration_since(o)
    }
}

#[derive(Clone, Copy, Debug, PartialEq, Eq, PartialOrd, Ord, Hash)]
pub struct SystemTime(u64);
pub const UNIX_EPOCH: SystemTime = SystemTime(0);

#[derive(Clone, Debug)]
pub struct SystemTimeError(Duration);
impl SystemTimeError {
    pub fn duration(&self) -> Duration {
        self.0
    }
}
impl core::fmt::Display for SystemTimeError {
    fn fmt(&self, f: &mut core::fmt::Formatter<'_>) -> core::fmt::Result {
        f.write_str("second time provided was later than self")
    }
}
impl std::error::Error for SystemTimeError {}

impl SystemTime {
    pub const UNIX_EPOCH: SystemTime = SystemTime(0);
    pub fn now() -> SystemTime {
        SystemTime(verif::system_now_ns())
    }
    pub fn duration_since(&self, earlier: SystemTime) -> Result<Duration, SystemTimeError> {
        if self.0 >= earlier.0 {
            Ok(ns_dur(self.0 - earlier.0))
        } else {
            Err(SystemTimeError(ns_dur(earlier.0 - self.0)))
        }
    }
    pub fn elapsed(&self) -> Result<Duration, SystemTimeError> {
        SystemTime::now().duration_since(*self)
    }
    pub fn checked_add(&self, d: Duration) -> Option<SystemTime> {
        dur_ns(d).and_then(|n| self.0.checked_add(n)).map(SystemTime)
    }
    pub fn checked_sub(&self, d: Duration) -> Option<SystemTime> {
        dur_ns(d).and_then(|n| self.0.checked_sub(n)).map(SystemTime)
    }
}
impl Add<Duration> for SystemTime {
    type Output = SystemTime;
    fn add(self, d: Duration) -> SystemTime {
        self.checked_add(d).expect("overflow when adding duration to time")
    }
}
impl Sub<Duration> for SystemTime {
    type Output = SystemTime;
    fn sub(self, d: Duration) -> SystemTime {
        self.checked_sub(d).expect("overflow when subtracting duration from time")
    }
}

//! Verification shim for `web-time` (DESIGN.md 2.2).
//!
//! `Instant` is a `(secs, nanos)` pair; `Instant::now()` returns whatever the
//! harness last stored with `verif::set_now_parts` / `verif::set_now`.  Arithmetic follows the documented
//! contract of `std::time::Instant` (`checked_*` return `None` on overflow/underflow,
//! `+`/`-` panic on it, `duration_since` saturates at zero).
#![allow(clippy::all)]

pub use core::time::Duration;
use core::ops::{Add, AddAssign, Sub, SubAssign};

pub mod verif {
    //! Harness-facing clock control.  `Instant` is a `(secs, nanos)` pair like
    //! `std::time::Instant`'s `Timespec`, so that conversions to `Duration` need no
    //! division (a 64-bit division by 10^9 of a symbolic value stalls the SAT back end).
    static mut NOW: super::Instant = super::Instant { secs: 1 << 20, nanos: 0 };
    static mut SYS_NS: u64 = 1_700_000_000_000_000_000;
    /// Set the value returned by `Instant::now()`.
    pub fn set_now_parts(secs: u64, nanos: u32) {
        assert!(nanos < 1_000_000_000);
        unsafe { NOW = super::Instant { secs, nanos } }
    }
    /// Set the value returned by `Instant::now()` (nanoseconds; divides, so prefer
    /// `set_now_parts` for symbolic values).
    pub fn set_now(ns: u64) {
        set_now_parts(ns / 1_000_000_000, (ns % 1_000_000_000) as u32)
    }
    pub fn now() -> super::Instant {
        unsafe { NOW }
    }
    pub fn set_system_now(ns: u64) {
        unsafe { SYS_NS = ns }
    }
    pub fn system_now_ns() -> u64 {
        unsafe { SYS_NS }
    }
    pub fn instant_from_parts(secs: u64, nanos: u32) -> super::Instant {
        assert!(nanos < 1_000_000_000);
        super::Instant { secs, nanos }
    }
    pub fn instant_parts(i: super::Instant) -> (u64, u32) {
        (i.secs, i.nanos)
    }
    pub fn instant_from_ns(ns: u64) -> super::Instant {
        instant_from_parts(ns / 1_000_000_000, (ns % 1_000_000_000) as u32)
    }
}

fn dur_ns(d: Duration) -> Option<u64> {
    let n = d.as_nanos();
    if n > u64::MAX as u128 {
        None
    } else {
        Some(n as u64)
    }
}
fn ns_dur(n: u64) -> Duration {
    Duration::new(n / 1_000_000_000, (n % 1_000_000_000) as u32)
}

/// Field order matters: the derived ordering is lexicographic on (secs, nanos).
#[derive(Clone, Copy, Debug, PartialEq, Eq, PartialOrd, Ord, Hash)]
pub struct Instant {
    secs: u64,
    nanos: u32,
}

impl Instant {
    pub fn now() -> Instant {
        verif::now()
    }
    pub fn duration_since(&self, earlier: Instant) -> Duration {
        self.checked_duration_since(earlier).unwrap_or_default()
    }
    pub fn checked_duration_since(&self, earlier: Instant) -> Option<Duration> {
        if *self < earlier {
            return None;
        }
        let (secs, nanos) = if self.nanos >= earlier.nanos {
            (self.secs - earlier.secs, self.nanos - earlier.nanos)
        } else {
            (self.secs - earlier.secs - 1, self.nanos + 1_000_000_000 - earlier.nanos)
        };
        Some(Duration::new(secs, nanos))
    }
    pub fn saturating_duration_since(&self, earlier: Instant) -> Duration {
        self.checked_duration_since(earlier).unwrap_or_default()
    }
    pub fn elapsed(&self) -> Duration {
        Instant::now().duration_since(*self)
    }
    pub fn checked_add(&self, d: Duration) -> Option<Instant> {
        let mut secs = self.secs.checked_add(d.as_secs())?;
        let mut nanos = self.nanos + d.subsec_nanos();
        if nanos >= 1_000_000_000 {
            nanos -= 1_000_000_000;
            secs = secs.checked_add(1)?;
        }
        Some(Instant { secs, nanos })
    }
    pub fn checked_sub(&self, d: Duration) -> Option<Instant> {
        let mut secs = self.secs.checked_sub(d.as_secs())?;
        let nanos = if self.nanos >= d.subsec_nanos() {
            self.nanos - d.subsec_nanos()
        } else {
            secs = secs.checked_sub(1)?;
            self.nanos + 1_000_000_000 - d.subsec_nanos()
        };
        Some(Instant { secs, nanos })
    }
}
impl Add<Duration> for Instant {
    type Output = Instant;
    fn add(self, d: Duration) -> Instant {
        self.checked_add(d).expect("overflow when adding duration to instant")
    }
}
impl AddAssign<Duration> for Instant {
    fn add_assign(&mut self, d: Duration) {
        *self = *self + d;
    }
}
impl Sub<Duration> for Instant {
    type Output = Instant;
    fn sub(self, d: Duration) -> Instant {
        self.checked_sub(d).expect("overflow when subtracting duration from instant")
    }
}
impl SubAssign<Duration> for Instant {
    fn sub_assign(&mut self, d: Duration) {
        *self = *self - d;
    }
}
impl Sub<Instant> for Instant {
    type Output = Duration;
    fn sub(self, o: Instant) -> Duration {
        self.duration_since(o)
    }
}

#[derive(Clone, Copy, Debug, PartialEq, Eq, PartialOrd, Ord, Hash)]
pub struct SystemTime(u64);
pub const UNIX_EPOCH: SystemTime = SystemTime(0);

#[derive(Clone, Debug)]
pub struct SystemTimeError(Duration);
impl SystemTimeError {
    pub fn duration(&self) -> Duration {
        self.0
    }
}
impl core::fmt::Display for SystemTimeError {
    fn fmt(&self, f: &mut core::fmt::Formatter<'_>) -> core::fmt::Result {
        f.write_str("second time provided was later than self")
    }
}
impl std::error::Error for SystemTimeError {}

impl SystemTime {
    pub const UNIX_EPOCH: SystemTime = SystemTime(0);
    pub fn now() -> SystemTime {
        SystemTime(verif::system_now_ns())
    }
    pub fn duration_since(&self, earlier: SystemTime) -> Result<Duration, SystemTimeError> {
        if self.0 >= earlier.0 {
            Ok(ns_dur(self.0 - earlier.0))
        } else {
            Err(SystemTimeError(ns_dur(earlier.0 - self.0)))
        }
    }
    pub fn elapsed(&self) -> Result<Duration, SystemTimeError> {
        SystemTime::now().duration_since(*self)
    }
    pub fn checked_add(&self, d: Duration) -> Option<SystemTime> {
        dur_ns(d).and_then(|n| self.0.checked_add(n)).map(SystemTime)
    }
    pub fn checked_sub(&self, d: Duration) -> Option<SystemTime> {
        dur_ns(d).and_then(|n| self.0.checked_sub(n)).map(SystemTime)
    }
}
impl Add<Duration> for SystemTime {
    type Output = SystemTime;
    fn add(self, d: Duration) -> SystemTime {
        self.checked_add(d).expect("overflow when adding duration to time")
    }
}
impl Sub<Duration> for SystemTime {
    type Output = SystemTime;
    fn sub(self, d: Duration) -> SystemTime {
        self.checked_sub(d).expect("overflow when subtracting duration from time")
    }
}

//! Verification shim for `tracing-attributes`: `#[instrument]` is the identity.
use proc_macro::TokenStream;

#[proc_macro_attribute]
pub fn instrument(_args: TokenStream, item: TokenStream) -> TokenStream {
    item
}

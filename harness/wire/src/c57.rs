//! C57 — length-prefixed protobuf codec round-trips and bounds allocation.
//!
//! Real code: `prost_codec::Codec::{encode, decode}` (public) on a real `BytesMut`, with the
//! crate's own message type `prost_codec::proto::Message { data: Vec<u8> }`.
//! Lengths/shapes are concrete per harness instance, contents symbolic.
use asynchronous_codec::{Decoder, Encoder};
use bytes::{BufMut, BytesMut};
use prost_codec::{proto::Message, Codec};

type C = Codec<Message, Message>;

/// Probe message for the framing harnesses: `Codec` is generic over the message type; this
/// instantiation replaces prost's field parser (third-party, and exploding on symbolic
/// bytes) by a `merge` that only records what it was handed.  Everything `Codec::decode`
/// itself does (prefix, limit, completeness, advance, split) is the real code.
#[derive(Debug, Default, Clone, PartialEq)]
struct Probe {
    len: usize,
    first: u8,
}
impl prost::Message for Probe {
    fn encode_raw(&self, buf: &mut impl BufMut) {
        let mut i = 0;
        while i < self.len {
            buf.put_u8(self.first);
            i += 1;
        }
    }
    fn merge_field(
        &mut self,
        _tag: u32,
        _wire_type: prost::encoding::WireType,
        buf: &mut impl bytes::Buf,
        _ctx: prost::encoding::DecodeContext,
    ) -> Result<(), prost::DecodeError> {
        let n = buf.remaining();
        buf.advance(n);
        Ok(())
    }
    fn encoded_len(&self) -> usize {
        self.len
    }
    fn clear(&mut self) {}
    fn merge(&mut self, mut buf: impl bytes::Buf) -> Result<(), prost::DecodeError> {
        self.len = buf.remaining();
        if self.len > 0 {
            self.first = buf.chunk()[0];
        }
        buf.advance(self.len);
        Ok(())
    }
}
type P = Codec<Probe, Probe>;

fn buf_of(bytes: &[u8]) -> BytesMut {
    let mut b = BytesMut::with_capacity(64);
    b.put_slice(bytes);
    b
}

fn same_bytes(a: &[u8], b: &[u8]) -> bool {
    if a.len() != b.len() {
        return false;
    }
    let mut i = 0;
    while i < a.len() {
        if a[i] != b[i] {
            return false;
        }
        i += 1;
    }
    true
}

/// A declared length above the limit is rejected as soon as the length prefix is complete,
/// before any payload byte is present.  The prefix is concrete per case (1-, 2- and 3-byte
/// prefixes), the limit is symbolic (any usize).
fn oversize_case(prefix: &[u8], declared: usize) {
    let max: usize = kani::any();
    let mut codec = C::new(max);
    let mut buf = buf_of(prefix);
    let r = codec.decode(&mut buf);
    if declared > max {
        assert!(r.is_err(), "declared length above the limit is rejected before the payload is buffered");
    } else {
        assert!(matches!(r, Ok(None)), "length within the limit, payload missing: wait for more bytes");
        assert!(buf.len() == prefix.len(), "nothing consumed from an incomplete frame");
    }
    kani::cover!(declared > max, "witness: oversize");
    kani::cover!(declared <= max, "witness: admissible");
    std::mem::forget(r);
    std::mem::forget(buf);
}

#[kani::proof]
#[kani::unwind(12)]
#[kani::stub(alloc::fmt::format, crate::stubs::empty_format)]
fn c57_q_oversize_rejected_before_payload_1byte() {
    oversize_case(&[5], 5);
}
#[kani::proof]
#[kani::unwind(12)]
#[kani::stub(alloc::fmt::format, crate::stubs::empty_format)]
fn c57_q_oversize_rejected_before_payload_2byte() {
    oversize_case(&[0x80, 0x01], 128);
}
#[cfg(feature = "thorough")]
#[kani::proof]
#[kani::unwind(12)]
#[kani::stub(alloc::fmt::format, crate::stubs::empty_format)]
fn c57_t_oversize_rejected_before_payload_3byte() {
    oversize_case(&[0xff, 0xff, 0x03], 65535);
}
#[cfg(feature = "thorough")]
#[kani::proof]
#[kani::unwind(12)]
#[kani::stub(alloc::fmt::format, crate::stubs::empty_format)]
fn c57_t_oversize_rejected_before_payload_max1byte() {
    oversize_case(&[0x7f], 127);
}

/// Round trip at a split point: message with K symbolic payload bytes, encoded by the real
/// encoder; the first S bytes alone must yield Ok(None) and stay buffered; with the rest
/// appended the original message comes back and the buffer is empty.  (K, S) concrete per
/// instance; all split points of a K-byte message are covered by the instance set.
fn roundtrip_split<const K: usize, const S: usize>() {
    let data: [u8; K] = kani::any();
    let msg = Message { data: data.to_vec() };
    let mut codec = C::new(64);
    let mut enc = BytesMut::with_capacity(64);
    codec.encode(msg, &mut enc).unwrap();
    let n = enc.len();
    assert!(n == if K == 0 { 1 } else { K + 3 }, "encoding = 1-byte length prefix + protobuf field");
    let mut wire = [0u8; 16];
    let mut i = 0;
    while i < n {
        wire[i] = enc[i];
        i += 1;
    }
    assert!(S < n);
    let mut buf = buf_of(&wire[..S]);
    let r1 = codec.decode(&mut buf);
    assert!(matches!(r1, Ok(None)), "a proper prefix of a frame decodes to nothing");
    assert!(buf.len() == S, "and stays buffered");
    buf.put_slice(&wire[S..n]);
    let r2 = codec.decode(&mut buf);
    match &r2 {
        Ok(Some(m)) => assert!(same_bytes(&m.data, &data), "the decoded message equals the encoded one"),
        _ => assert!(false, "a complete frame decodes to a message"),
    }
    assert!(buf.is_empty(), "exactly the frame is consumed");
    kani::cover!(true, "witness: harness completes");
    std::mem::forget((r1, r2, buf, enc));
}

macro_rules! rt {
    ($name:ident, $k:expr, $s:expr) => {
        #[kani::proof]
        #[kani::unwind(12)]
        #[kani::stub(alloc::fmt::format, crate::stubs::empty_format)]
        fn $name() {
            roundtrip_split::<$k, $s>()
        }
    };
}
rt!(c57_q_roundtrip_k1_split1, 1, 1);
rt!(c57_q_roundtrip_k1_split3, 1, 3);
#[cfg(feature = "thorough")]
rt!(c57_t_roundtrip_k1_split0, 1, 0);
#[cfg(feature = "thorough")]
rt!(c57_t_roundtrip_k1_split2, 1, 2);
#[cfg(feature = "thorough")]
rt!(c57_t_roundtrip_k0_split0, 0, 0);
#[cfg(feature = "thorough")]
rt!(c57_t_roundtrip_k3_split0, 3, 0);
#[cfg(feature = "thorough")]
rt!(c57_t_roundtrip_k3_split1, 3, 1);
#[cfg(feature = "thorough")]
rt!(c57_t_roundtrip_k3_split2, 3, 2);
#[cfg(feature = "thorough")]
rt!(c57_t_roundtrip_k3_split3, 3, 3);
#[cfg(feature = "thorough")]
rt!(c57_t_roundtrip_k3_split4, 3, 4);
#[cfg(feature = "thorough")]
rt!(c57_t_roundtrip_k3_split5, 3, 5);

/// Two frames back to back in one buffer decode to the same two messages, in order.
#[kani::proof]
#[kani::unwind(12)]
#[kani::stub(alloc::fmt::format, crate::stubs::empty_format)]
fn c57_q_two_messages_back_to_back() {
    let (a, b): ([u8; 1], [u8; 2]) = (kani::any(), kani::any());
    let mut codec = C::new(64);
    let mut buf = BytesMut::with_capacity(64);
    codec.encode(Message { data: a.to_vec() }, &mut buf).unwrap();
    codec.encode(Message { data: b.to_vec() }, &mut buf).unwrap();
    let r1 = codec.decode(&mut buf);
    let r2 = codec.decode(&mut buf);
    let r3 = codec.decode(&mut buf);
    assert!(matches!(&r1, Ok(Some(m)) if same_bytes(&m.data, &a)), "first message first");
    assert!(matches!(&r2, Ok(Some(m)) if same_bytes(&m.data, &b)), "second message second");
    assert!(matches!(&r3, Ok(None)) && buf.is_empty(), "nothing left");
    kani::cover!(true, "witness: harness completes");
    std::mem::forget((r1, r2, r3, buf));
}

/// A frame whose length prefix needs two bytes (declared 128): with the last MISSING
/// payload bytes absent the decoder waits (Ok(None), nothing consumed, no panic);
/// complete, it hands exactly the declared bytes to the message (probe instantiation).
fn two_byte_prefix<const MISSING: usize>() {
    let mut codec = P::new(4096);
    let mut buf = BytesMut::with_capacity(256);
    buf.put_slice(&[0x80, 0x01]); // declared length 128
    buf.put_bytes(7, 128 - MISSING);
    let r1 = codec.decode(&mut buf);
    assert!(matches!(r1, Ok(None)), "incomplete frame with a two-byte prefix: wait, do not panic");
    assert!(buf.len() == 130 - MISSING, "nothing consumed");
    buf.put_bytes(7, MISSING);
    let r2 = codec.decode(&mut buf);
    assert!(matches!(&r2, Ok(Some(m)) if m.len == 128 && m.first == 7), "complete frame: exactly the 128 declared bytes are handed to the message");
    assert!(buf.is_empty());
    kani::cover!(true, "witness: harness completes");
    std::mem::forget((r1, r2, buf));
}
#[kani::proof]
#[kani::unwind(12)]
#[kani::stub(alloc::fmt::format, crate::stubs::empty_format)]
fn c57_q_two_byte_prefix_last_byte_missing() {
    two_byte_prefix::<1>()
}
#[cfg(feature = "thorough")]
#[kani::proof]
#[kani::unwind(12)]
#[kani::stub(alloc::fmt::format, crate::stubs::empty_format)]
fn c57_t_two_byte_prefix_two_bytes_missing() {
    two_byte_prefix::<2>()
}

/// Hostile input (probe instantiation): the first byte (declared length) is concrete per
/// instance, the N bytes that follow are symbolic, the limit is symbolic (<= 4): the
/// decoder never panics; on Ok(None) nothing is consumed; a decoded message respects the
/// limit and its frame is consumed exactly.
fn hostile<const L: u8, const N: usize>() {
    let rest: [u8; N] = kani::any();
    let max: usize = kani::any();
    kani::assume(max <= 4);
    let mut codec = P::new(max);
    let mut buf = BytesMut::with_capacity(64);
    buf.put_u8(L);
    buf.put_slice(&rest);
    let r = codec.decode(&mut buf);
    match &r {
        Ok(Some(m)) => {
            assert!(m.len == L as usize && m.len <= max, "a decoded message is exactly the declared frame and respects the limit");
            assert!(buf.len() == N - L as usize, "exactly the declared frame is consumed");
            assert!(L == 0 || m.first == rest[0], "payload bytes are the ones that followed the prefix");
        }
        Ok(None) => {
            assert!(buf.len() == N + 1, "an incomplete frame consumes nothing");
            assert!(L as usize > N && L as usize <= max, "Ok(None) only for an admissible, incomplete frame");
        }
        Err(_) => assert!(L as usize > max, "the probe message never fails to parse: errors only for oversize frames"),
    }
    if L as usize > max {
        assert!(r.is_err(), "over the limit: rejected");
    }
    kani::cover!(L == 0 || r.is_err(), "witness: some limit rejects (every limit admits an empty frame)");
    kani::cover!(!(L as usize <= N) || matches!(&r, Ok(Some(_))), "witness: complete admissible frame decodes");
    std::mem::forget(r);
    std::mem::forget(buf);
}
macro_rules! hostile {
    ($name:ident, $l:expr, $n:expr) => {
        #[kani::proof]
        #[kani::unwind(12)]
        #[kani::stub(alloc::fmt::format, crate::stubs::empty_format)]
        fn $name() {
            hostile::<$l, $n>()
        }
    };
}
hostile!(c57_q_hostile_len2_of3, 2, 3);
hostile!(c57_q_hostile_len3_of2, 3, 2);
hostile!(c57_q_hostile_len0_of2, 0, 2);
#[cfg(feature = "thorough")]
hostile!(c57_t_hostile_len1_of3, 1, 3);
#[cfg(feature = "thorough")]
hostile!(c57_t_hostile_len3_of3, 3, 3);
#[cfg(feature = "thorough")]
hostile!(c57_t_hostile_len4_of4, 4, 4);
#[cfg(feature = "thorough")]
hostile!(c57_t_hostile_len5_of4, 5, 4);

#[cfg(verif_replay)]
include!(env!("VERIF_REPLAY_FILE"));

//! C25 — mplex framing round-trips and bounds hostile input.
//!
//! Real code (via hooks): `libp2p_mplex::codec::Codec` as `Decoder` and `Encoder` on a real
//! `BytesMut`.  Oracle: the mplex wire specification (header = stream id << 3 | flag;
//! flags 0 NewStream, 1/2 Message receiver/initiator, 3/4 Close, 5/6 Reset; varint length;
//! payload), written here independently of the codec.
use bytes::{BufMut, Bytes, BytesMut};
use libp2p_mplex::verif_hooks::{CodecHook, FrameRepr, Kind, MAX_FRAME};

/// Append bytes one by one (`put_u8` writes at concrete offsets, so CBMC keeps concrete
/// bytes concrete; a `put_slice` memcpy makes every byte of the buffer look symbolic and
/// every varint read fork ten ways).
fn put(buf: &mut BytesMut, bytes: &[u8]) {
    let mut i = 0;
    while i < bytes.len() {
        buf.put_u8(bytes[i]);
        i += 1;
    }
}

fn same_bytes(a: &[u8], b: &[u8]) -> bool {
    if a.len() != b.len() {
        return false;
    }
    let mut i = 0;
    while i < a.len() {
        if a[i] != b[i] {
            return false;
        }
        i += 1;
    }
    true
}

/// What a receiver must see for header flag `flag` (spec table): (kind, remote is dialer).
fn spec(flag: u8) -> Option<(Kind, bool)> {
    match flag {
        0 => Some((Kind::Open, true)),   // NewStream: always opened by the remote as initiator
        1 => Some((Kind::Data, false)),  // MessageReceiver: sender is the receiver side of the stream
        2 => Some((Kind::Data, true)),   // MessageInitiator
        3 => Some((Kind::Close, false)), // CloseReceiver
        4 => Some((Kind::Close, true)),  // CloseInitiator
        5 => Some((Kind::Reset, false)), // ResetReceiver
        6 => Some((Kind::Reset, true)),  // ResetInitiator
        _ => None,
    }
}

/// Decode one frame `[header, len = K, payload]`, whole, with a SYMBOLIC one-byte header
/// (stream id < 16, every flag incl. the invalid 7) and K symbolic payload bytes.
fn decode_whole<const K: usize>() {
    let h: u8 = kani::any::<u8>() & 0x7f;
    let payload: [u8; K] = kani::any();
    let mut c = CodecHook::default();
    let mut buf = BytesMut::with_capacity(64);
    buf.put_u8(h);
    buf.put_u8(K as u8);
    put(&mut buf, &payload);
    let r = c.decode(&mut buf);
    check_decoded(&c, &buf, h, &payload, &r);
    kani::cover!(h & 7 == 7, "witness: invalid type");
    kani::cover!(h & 7 == 2 && h >> 3 == 15, "witness: data frame, max one-byte stream id");
    std::mem::forget((r, buf));
}

fn check_decoded(c: &CodecHook, buf: &BytesMut, h: u8, payload: &[u8], r: &std::io::Result<Option<FrameRepr>>) {
    match spec(h & 7) {
        None => assert!(r.is_err(), "unknown frame type 7 is rejected"),
        Some((kind, remote_dialer)) => match r {
            Ok(Some(f)) => {
                assert!(f.kind == kind, "frame kind per the flag table");
                assert!(f.num == (h >> 3) as u64, "stream id = header >> 3");
                assert!(f.dialer == remote_dialer, "remote role per the flag table");
                if kind == Kind::Data {
                    assert!(same_bytes(&f.data, payload), "payload delivered unchanged");
                }
                assert!(CodecHook::into_local_is_dialer(f.num, f.dialer) == !remote_dialer, "local view has the mirrored role");
                assert!(buf.is_empty() && c.decoder_state() == 0, "frame consumed, decoder back at the start");
            }
            _ => assert!(false, "a complete valid frame decodes"),
        },
    }
}

/// The same frame given in two chunks split at S, for each of the 8 flags with a
/// CONCRETE header (stream id NUM; a symbolic header byte read back from the buffer makes
/// every varint read fork over all continuation lengths) and K symbolic payload bytes.
fn decode_split<const K: usize, const S: usize, const NUM: u8>() {
    let payload: [u8; K] = kani::any();
    let n = 2 + K;
    assert!(S < n);
    let mut flag = 0u8;
    while flag < 8 {
        let h = (NUM << 3) | flag;
        let mut wire = [0u8; 8];
        wire[0] = h;
        wire[1] = K as u8;
        let mut i = 0;
        while i < K {
            wire[2 + i] = payload[i];
            i += 1;
        }
        let mut c = CodecHook::default();
        let mut buf = BytesMut::with_capacity(64);
        put(&mut buf, &wire[..S]);
        let r1 = c.decode(&mut buf);
        assert!(matches!(r1, Ok(None)), "a proper prefix of a frame yields nothing");
        // the decoder consumes the header and length varints as they complete and leaves
        // payload bytes in the buffer; the next chunk is appended behind what it left
        let left = if S <= 2 { 0 } else { S - 2 };
        assert!(buf.len() == left, "only complete varints are consumed from a partial frame");
        put(&mut buf, &wire[S..n]);
        let r = c.decode(&mut buf);
        check_decoded(&c, &buf, h, &payload, &r);
        std::mem::forget((r1, r, buf));
        flag += 1;
    }
    kani::cover!(true, "witness: all eight flags done");
}

macro_rules! ds {
    ($name:ident, $k:expr, $s:expr, $num:expr) => {
        #[kani::proof]
        #[kani::unwind(12)]
        #[kani::stub(alloc::fmt::format, crate::stubs::empty_format)]
        fn $name() {
            decode_split::<$k, $s, $num>()
        }
    };
}
#[kani::proof]
#[kani::unwind(12)]
#[kani::stub(alloc::fmt::format, crate::stubs::empty_format)]
fn c25_q_decode_k1_whole() {
    decode_whole::<1>()
}
#[cfg(feature = "thorough")]
#[kani::proof]
#[kani::unwind(12)]
#[kani::stub(alloc::fmt::format, crate::stubs::empty_format)]
fn c25_t_decode_k0_whole() {
    decode_whole::<0>()
}
#[cfg(feature = "thorough")]
#[kani::proof]
#[kani::unwind(12)]
#[kani::stub(alloc::fmt::format, crate::stubs::empty_format)]
fn c25_t_decode_k3_whole() {
    decode_whole::<3>()
}
ds!(c25_q_decode_k1_split1, 1, 1, 5);
ds!(c25_q_decode_k1_split2, 1, 2, 5);
#[cfg(feature = "thorough")]
ds!(c25_t_decode_k0_split1, 0, 1, 0);
#[cfg(feature = "thorough")]
ds!(c25_t_decode_k1_split0, 1, 0, 15);
#[cfg(feature = "thorough")]
ds!(c25_t_decode_k3_split1, 3, 1, 5);
#[cfg(feature = "thorough")]
ds!(c25_t_decode_k3_split2, 3, 2, 5);
#[cfg(feature = "thorough")]
ds!(c25_t_decode_k3_split3, 3, 3, 5);
#[cfg(feature = "thorough")]
ds!(c25_t_decode_k3_split4, 3, 4, 5);


/// A frame whose HEADER varint needs two bytes (stream id 16..), given in two chunks split at
/// S — including S = 1, inside the header varint — for each of the 8 flags (concrete header,
/// K symbolic payload bytes).
fn decode_split_2byte_header<const K: usize, const S: usize, const NUM: u64>() {
    let payload: [u8; K] = kani::any();
    let n = 3 + K;
    assert!(S < n && NUM >= 16 && NUM < 2048);
    let mut flag = 0u8;
    while flag < 8 {
        let header = (NUM << 3) | flag as u64;
        let mut wire = [0u8; 8];
        wire[0] = (header & 0x7f) as u8 | 0x80;
        wire[1] = (header >> 7) as u8;
        wire[2] = K as u8;
        let mut i = 0;
        while i < K {
            wire[3 + i] = payload[i];
            i += 1;
        }
        let mut c = CodecHook::default();
        let mut buf = BytesMut::with_capacity(64);
        put(&mut buf, &wire[..S]);
        let r1 = c.decode(&mut buf);
        assert!(matches!(r1, Ok(None)), "a proper prefix of a frame yields nothing");
        put(&mut buf, &wire[S..n]);
        let r = c.decode(&mut buf);
        match spec(flag) {
            None => assert!(r.is_err(), "unknown frame type 7 is rejected"),
            Some((kind, remote_dialer)) => match &r {
                Ok(Some(f)) => {
                    assert!(f.kind == kind && f.num == NUM && f.dialer == remote_dialer, "kind, stream id and role per the flag table");
                    if kind == Kind::Data {
                        assert!(same_bytes(&f.data, &payload), "payload delivered unchanged");
                    }
                    assert!(buf.is_empty() && c.decoder_state() == 0, "frame consumed, decoder back at the start");
                }
                _ => assert!(false, "a complete valid frame decodes, wherever the stream was split"),
            },
        }
        std::mem::forget((r1, r, buf));
        flag += 1;
    }
    kani::cover!(true, "witness: all eight flags done");
}
macro_rules! ds2 {
    ($name:ident, $k:expr, $s:expr, $num:expr) => {
        #[kani::proof]
        #[kani::unwind(12)]
        #[kani::stub(alloc::fmt::format, crate::stubs::empty_format)]
        fn $name() {
            decode_split_2byte_header::<$k, $s, $num>()
        }
    };
}
ds2!(c25_q_decode_2byte_header_split_inside_header, 1, 1, 16);
#[cfg(feature = "thorough")]
ds2!(c25_t_decode_2byte_header_split_after_header, 1, 2, 300);
#[cfg(feature = "thorough")]
ds2!(c25_t_decode_2byte_header_split_after_len, 1, 3, 2047);

/// Encoder side against the wire specification: header varint = id << 3 | flag (flag from
/// the LOCAL role: initiator flags for the dialer), length varint, payload.  Together
/// with the decode harnesses above this gives the round trip (encode -> spec bytes ->
/// decode); feeding the encoder's BytesMut straight into the decoder in ONE harness
/// exhausted 48 GB in CBMC's propositional reduction (measured), so the composition is
/// made through the specification bytes.  Kind, role, id and payload concrete per case.
fn encode_case<const K: usize>(kind: Kind, dialer: bool, num: u64, header: &[u8]) {
    // concrete payload bytes from a static (a heap-allocated `Bytes` with symbolic contents
    // runs CBMC out of memory in the array post-processing: measured)
    static PAYLOAD: [u8; 3] = [0xab, 0x01, 0xfe];
    let payload = &PAYLOAD[..K];
    let data = if kind == Kind::Data { Bytes::from_static(&PAYLOAD).slice(..K) } else { Bytes::new() };
    let mut c = CodecHook::default();
    let mut buf = BytesMut::with_capacity(64);
    let e = c.encode(FrameRepr { kind, num, dialer, data }, &mut buf);
    assert!(e.is_ok(), "small frames always encode");
    let plen = if kind == Kind::Data { K } else { 0 };
    assert!(buf.len() == header.len() + 1 + plen, "header varint + one-byte length + payload");
    let mut i = 0;
    while i < header.len() {
        assert!(buf[i] == header[i], "header = varint(stream id << 3 | flag), flag from the local role");
        i += 1;
    }
    assert!(buf[header.len()] == plen as u8, "length varint");
    let mut j = 0;
    while j < plen {
        assert!(buf[header.len() + 1 + j] == payload[j], "payload bytes unchanged");
        j += 1;
    }
    kani::cover!(true, "witness: harness completes");
    std::mem::forget((buf, e));
}
macro_rules! enc {
    ($name:ident, $k:expr, $kind:expr, $dialer:expr, $num:expr, $hdr:expr) => {
        #[kani::proof]
        #[kani::unwind(12)]
        #[kani::stub(alloc::fmt::format, crate::stubs::empty_format)]
        fn $name() {
            encode_case::<$k>($kind, $dialer, $num, &$hdr)
        }
    };
}
// flags: 0 NewStream, 1 MessageReceiver, 2 MessageInitiator, 3 CloseReceiver, 4 CloseInitiator,
// 5 ResetReceiver, 6 ResetInitiator
enc!(c25_q_encode_data_dialer, 1, Kind::Data, true, 5, [5 << 3 | 2]);
enc!(c25_q_encode_data_listener_2byte_header, 1, Kind::Data, false, 300, [(((300u64 << 3 | 1) & 0x7f) as u8) | 0x80, ((300u64 << 3 | 1) >> 7) as u8]);
#[cfg(feature = "thorough")]
enc!(c25_t_encode_open, 0, Kind::Open, true, 7, [7 << 3]);
#[cfg(feature = "thorough")]
enc!(c25_t_encode_close_dialer, 0, Kind::Close, true, 0, [4]);
#[cfg(feature = "thorough")]
enc!(c25_t_encode_close_listener, 0, Kind::Close, false, 15, [15 << 3 | 3]);
#[cfg(feature = "thorough")]
enc!(c25_t_encode_reset_dialer, 0, Kind::Reset, true, 1, [1 << 3 | 6]);
#[cfg(feature = "thorough")]
enc!(c25_t_encode_reset_listener, 0, Kind::Reset, false, 2, [2 << 3 | 5]);
#[cfg(feature = "thorough")]
enc!(c25_t_encode_data_k3, 3, Kind::Data, true, 9, [9 << 3 | 2]);

/// Length bound: a declared length above 1 MiB is rejected the moment the length varint
/// is complete (no payload byte present); exactly 1 MiB is admissible (waits for payload).
/// Length prefix concrete per case, header symbolic.
fn length_case(len_varint: &[u8], declared: usize) {
    let h: u8 = kani::any::<u8>() & 0x7f;
    kani::assume(h & 7 != 7);
    let mut c = CodecHook::default();
    let mut buf = BytesMut::with_capacity(64);
    buf.put_u8(h);
    put(&mut buf, len_varint);
    let r = c.decode(&mut buf);
    if declared > MAX_FRAME {
        assert!(r.is_err(), "declared length above 1 MiB is rejected before the payload is buffered");
    } else {
        assert!(matches!(r, Ok(None)), "an admissible length waits for its payload");
        assert!(c.decoder_state() == 2, "header and length are remembered");
    }
    kani::cover!(true, "witness: harness completes");
    std::mem::forget((r, buf));
}
#[kani::proof]
#[kani::unwind(12)]
#[kani::stub(alloc::fmt::format, crate::stubs::empty_format)]
fn c25_q_length_just_over_max() {
    assert!(MAX_FRAME == 1024 * 1024);
    length_case(&[0x81, 0x80, 0x40], 1024 * 1024 + 1);
}
#[kani::proof]
#[kani::unwind(12)]
#[kani::stub(alloc::fmt::format, crate::stubs::empty_format)]
fn c25_q_length_exactly_max() {
    length_case(&[0x80, 0x80, 0x40], 1024 * 1024);
}
/// 2^32: a length that only fits 64 bits (a truncation to 32 bits would turn it into 0).
#[kani::proof]
#[kani::unwind(12)]
#[kani::stub(alloc::fmt::format, crate::stubs::empty_format)]
fn c25_q_length_2_pow_32() {
    length_case(&[0x80, 0x80, 0x80, 0x80, 0x10], 1 << 32);
}
#[cfg(feature = "thorough")]
#[kani::proof]
#[kani::unwind(12)]
#[kani::stub(alloc::fmt::format, crate::stubs::empty_format)]
fn c25_t_length_2_pow_40_plus_5() {
    length_case(&[0x85, 0x80, 0x80, 0x80, 0x80, 0x20], (1 << 40) + 5);
}
#[cfg(feature = "thorough")]
#[kani::proof]
#[kani::unwind(12)]
#[kani::stub(alloc::fmt::format, crate::stubs::empty_format)]
fn c25_t_length_huge() {
    length_case(&[0xff, 0xff, 0xff, 0xff, 0x0f], 0xffff_ffff);
}
#[cfg(feature = "thorough")]
#[kani::proof]
#[kani::unwind(12)]
#[kani::stub(alloc::fmt::format, crate::stubs::empty_format)]
fn c25_t_length_small() {
    length_case(&[0x05], 5);
}

/// Hostile bytes: symbolic header byte, symbolic (one-byte) length < 4, N symbolic
/// following bytes: never panics, never yields more payload than declared.
fn hostile<const N: usize>() {
    let h: u8 = kani::any::<u8>() & 0x7f;
    let l: u8 = kani::any::<u8>() & 3;
    let rest: [u8; N] = kani::any();
    let mut c = CodecHook::default();
    let mut buf = BytesMut::with_capacity(64);
    buf.put_u8(h);
    buf.put_u8(l);
    put(&mut buf, &rest);
    let r = c.decode(&mut buf);
    match &r {
        Ok(Some(f)) => {
            assert!(h & 7 != 7 && l as usize <= N, "only complete frames of a known type decode");
            assert!(f.data.len() <= l as usize, "never more payload than declared");
            assert!(buf.len() == N - l as usize, "exactly the declared bytes are consumed");
        }
        Ok(None) => assert!(l as usize > N, "waiting only if the payload is incomplete"),
        Err(_) => assert!(h & 7 == 7, "errors only for the unknown type (lengths here are small)"),
    }
    kani::cover!(r.is_err(), "witness: rejected");
    kani::cover!(N >= 3 || matches!(&r, Ok(None)), "witness: incomplete (only possible when fewer than 3 bytes follow)");
    std::mem::forget((r, buf));
}
#[kani::proof]
#[kani::unwind(12)]
#[kani::stub(alloc::fmt::format, crate::stubs::empty_format)]
fn c25_q_hostile_2() {
    hostile::<2>()
}
#[cfg(feature = "thorough")]
#[kani::proof]
#[kani::unwind(12)]
#[kani::stub(alloc::fmt::format, crate::stubs::empty_format)]
fn c25_t_hostile_4() {
    hostile::<4>()
}

#[cfg(verif_replay)]
include!(env!("VERIF_REPLAY_FILE"));

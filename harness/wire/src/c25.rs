//! C25 — mplex framing round-trips and bounds hostile input.
//!
//! Real code (via hooks): `libp2p_mplex::codec::Codec` as `Decoder` and `Encoder` on a real
//! `BytesMut`.  Oracle: the mplex wire specification (header = stream id << 3 | flag;
//! flags 0 NewStream, 1/2 Message receiver/initiator, 3/4 Close, 5/6 Reset; varint length;
//! payload), written here independently of the codec.
use bytes::{BufMut, Bytes, BytesMut};
use libp2p_mplex::verif_hooks::{CodecHook, FrameRepr, Kind, MAX_FRAME};

/// Append bytes one by one (`put_u8` writes at concrete offsets, so CBMC keeps concrete
/// bytes concrete; a `put_slice` memcpy makes every byte of the buffer look symbolic and
/// every varint read fork ten ways).
fn put(buf: &mut BytesMut, bytes: &[u8]) {
    let mut i = 0;
    while i < bytes.len() {
        buf.put_u8(bytes[i]);
        i += 1;
    }
}

fn same_bytes(a: &[u8], b: &[u8]) -> bool {
    if a.len() != b.len() {
        return false;
    }
    let mut i = 0;
    while i < a.len() {
        if a[i] != b[i] {
            return false;
        }
        i += 1;
    }
    true
}

/// What a receiver must see for header flag `flag` (spec table): (kind, remote is dialer).
fn spec(flag: u8) -> Option<(Kind, bool)> {
    match flag {
        0 => Some((Kind::Open, true)),   // NewStream: always opened by the remote as initiator
        1 => Some((Kind::Data, false)),  // MessageReceiver: sender is the receiver side of the stream
        2 => Some((Kind::Data, true)),   // MessageInitiator
        3 => Some((Kind::Close, false)), // CloseReceiver
        4 => Some((Kind::Close, true)),  // CloseInitiator
        5 => Some((Kind::Reset, false)), // ResetReceiver
        6 => Some((Kind::Reset, true)),  // ResetInitiator
        _ => None,
    }
}

/// Decode one frame `[header, len = K, payload]`, whole, with a SYMBOLIC one-byte header
/// (stream id < 16, every flag incl. the invalid 7) and K symbolic payload bytes.
fn decode_whole<const K: usize>() {
    let h: u8 = kani::any::<u8>() & 0x7f;
    let payload: [u8; K] = kani::any();
    let mut c = CodecHook::default();
    let mut buf = BytesMut::with_capacity(64);
    buf.put_u8(h);
    buf.put_u8(K as u8);
    put(&mut buf, &payload);
    let r = c.decode(&mut buf);
    check_decoded(&c, &buf, h, &payload, &r);
    kani::cover!(h & 7 == 7, "witness: invalid type");
    kani::cover!(h & 7 == 2 && h >> 3 == 15, "witness: data frame, max one-byte stream id");
    std::mem::forget((r, buf));
}

fn check_decoded(c: &CodecHook, buf: &BytesMut, h: u8, payload: &[u8], r: &std::io::Result<Option<FrameRepr>>) {
    match spec(h & 7) {
        None => assert!(r.is_err(), "unknown frame type 7 is rejected"),
        Some((kind, remote_dialer)) => match r {
            Ok(Some(f)) => {
                assert!(f.kind == kind, "frame kind per the flag table");
                assert!(f.num == (h >> 3) as u64, "stream id = header >> 3");
                assert!(f.dialer == remote_dialer, "remote role per the flag table");
                if kind == Kind::Data {
                    assert!(same_bytes(&f.data, payload), "payload delivered unchanged");
                }
                assert!(CodecHook::into_local_is_dialer(f.num, f.dialer) == !remote_dialer, "local view has the mirrored role");
                assert!(buf.is_empty() && c.decoder_state() == 0, "frame consumed, decoder back at the start");
            }
            _ => assert!(false, "a complete valid frame decodes"),
        },
    }
}

/// The same frame given in two chunks split at S, for each of the 8 flags with a
/// CONCRETE header (stream id NUM; a symbolic header byte read back from the buffer makes
/// every varint read fork over all continuation lengths) and K symbolic payload bytes.
fn decode_split<const K: usize, const S: usize, const NUM: u8>() {
    let payload: [u8; K] = kani::any();
    let n = 2 + K;
    assert!(S < n);
    let mut flag = 0u8;
    while flag < 8 {
        let h = (NUM << 3) | flag;
        let mut wire = [0u8; 8];
        wire[0] = h;
        wire[1] = K as u8;
        let mut i = 0;
        while i < K {
            wire[2 + i] = payload[i];
            i += 1;
        }
        let mut c = CodecHook::default();
        let mut buf = BytesMut::with_capacity(64);
        put(&mut buf, &wire[..S]);
        let r1 = c.decode(&mut buf);
        assert!(matches!(r1, Ok(None)), "a proper prefix of a frame yields nothing");
        // the decoder consumes the header and length varints as they complete and leaves
        // payload bytes in the buffer; the next chunk is appended behind what it left
        let left = if S <= 2 { 0 } else { S - 2 };
        assert!(buf.len() == left, "only complete varints are consumed from a partial frame");
        put(&mut buf, &wire[S..n]);
        let r = c.decode(&mut buf);
        check_decoded(&c, &buf, h, &payload, &r);
        std::mem::forget((r1, r, buf));
        flag += 1;
    }
    kani::cover!(true, "witness: all eight flags done");
}

macro_rules! ds {
    ($name:ident, $k:expr, $s:expr, $num:expr) => {
        #[kani::proof]
        #[kani::unwind(12)]
        #[kani::stub(alloc::fmt::format, crate::stubs::empty_format)]
        fn $name() {
            decode_split::<$k, $s, $num>()
        }
    };
}
#[kani::proof]
#[kani::unwind(12)]
#[kani::stub(alloc::fmt::format, crate::stubs::empty_format)]
fn c25_q_decode_k1_whole() {
    decode_whole::<1>()
}
#[cfg(feature = "thorough")]
#[kani::proof]
#[kani::unwind(12)]
#[kani::stub(alloc::fmt::format, crate::stubs::empty_format)]
fn c25_t_decode_k0_whole() {
    decode_whole::<0>()
}
#[cfg(feature = "thorough")]
#[kani::proof]
#[kani::unwind(12)]
#[kani::stub(alloc::fmt::format, crate::stubs::empty_format)]
fn c25_t_decode_k3_whole() {
    decode_whole::<3>()
}
ds!(c25_q_decode_k1_split1, 1, 1, 5);
ds!(c25_q_decode_k1_split2, 1, 2, 5);
#[cfg(feature = "thorough")]
ds!(c25_t_decode_k0_split1, 0, 1, 0);
#[cfg(feature = "thorough")]
ds!(c25_t_decode_k1_split0, 1, 0, 15);
#[cfg(feature = "thorough")]
ds!(c25_t_decode_k3_split1, 3, 1, 5);
#[cfg(feature = "thorough")]
ds!(c25_t_decode_k3_split2, 3, 2, 5);
#[cfg(feature = "thorough")]
ds!(c25_t_decode_k3_split3, 3, 3, 5);
#[cfg(feature = "thorough")]
ds!(c25_t_decode_k3_split4, 3, 4, 5);

/// Encode with the real encoder, decode with the real decoder.  Kind, role and stream id
/// are concrete per case (a symbolic header makes the varint encoder/decoder fork over all
/// header lengths); the payload is symbolic.
fn roundtrip_case<const K: usize>(kind: Kind, dialer: bool, num: u64) {
    let payload: [u8; K] = kani::any();
    let data = if kind == Kind::Data { Bytes::copy_from_slice(&payload) } else { Bytes::new() };
    let mut c = CodecHook::default();
    let mut buf = BytesMut::with_capacity(64);
    let e = c.encode(FrameRepr { kind, num, dialer, data }, &mut buf);
    assert!(e.is_ok(), "small frames always encode");
    let r = c.decode(&mut buf);
    match &r {
        Ok(Some(f)) => {
            assert!(f.kind == kind && f.num == num, "same kind and stream id");
            // the receiver sees the sender's role; a new stream is always opened by its initiator
            assert!(f.dialer == if kind == Kind::Open { true } else { dialer }, "the decoded id carries the sender's role");
            assert!(CodecHook::into_local_is_dialer(f.num, f.dialer) != f.dialer, "and maps to the mirrored local role");
            if kind == Kind::Data {
                assert!(same_bytes(&f.data, &payload), "same payload");
            } else {
                assert!(f.data.is_empty());
            }
            assert!(buf.is_empty());
        }
        _ => assert!(false, "an encoded frame decodes"),
    }
    kani::cover!(true, "witness: harness completes");
    std::mem::forget((r, buf, e));
}
macro_rules! rt {
    ($name:ident, $k:expr, $kind:expr, $dialer:expr, $num:expr) => {
        #[kani::proof]
        #[kani::unwind(12)]
        #[kani::stub(alloc::fmt::format, crate::stubs::empty_format)]
        fn $name() {
            roundtrip_case::<$k>($kind, $dialer, $num)
        }
    };
}
rt!(c25_q_roundtrip_data_dialer, 1, Kind::Data, true, 5);
rt!(c25_q_roundtrip_data_listener_2byte_header, 1, Kind::Data, false, 300);
#[cfg(feature = "thorough")]
rt!(c25_t_roundtrip_open, 0, Kind::Open, true, 7);
#[cfg(feature = "thorough")]
rt!(c25_t_roundtrip_close_dialer, 0, Kind::Close, true, 0);
#[cfg(feature = "thorough")]
rt!(c25_t_roundtrip_close_listener, 0, Kind::Close, false, 15);
#[cfg(feature = "thorough")]
rt!(c25_t_roundtrip_reset_dialer, 0, Kind::Reset, true, 16);
#[cfg(feature = "thorough")]
rt!(c25_t_roundtrip_reset_listener, 0, Kind::Reset, false, 1 << 40);
#[cfg(feature = "thorough")]
rt!(c25_t_roundtrip_data_k3_max_id, 3, Kind::Data, true, (1 << 61) - 1);

/// Length bound: a declared length above 1 MiB is rejected the moment the length varint
/// is complete (no payload byte present); exactly 1 MiB is admissible (waits for payload).
/// Length prefix concrete per case, header symbolic.
fn length_case(len_varint: &[u8], declared: usize) {
    let h: u8 = kani::any::<u8>() & 0x7f;
    kani::assume(h & 7 != 7);
    let mut c = CodecHook::default();
    let mut buf = BytesMut::with_capacity(64);
    buf.put_u8(h);
    put(&mut buf, len_varint);
    let r = c.decode(&mut buf);
    if declared > MAX_FRAME {
        assert!(r.is_err(), "declared length above 1 MiB is rejected before the payload is buffered");
    } else {
        assert!(matches!(r, Ok(None)), "an admissible length waits for its payload");
        assert!(c.decoder_state() == 2, "header and length are remembered");
    }
    kani::cover!(true, "witness: harness completes");
    std::mem::forget((r, buf));
}
#[kani::proof]
#[kani::unwind(12)]
#[kani::stub(alloc::fmt::format, crate::stubs::empty_format)]
fn c25_q_length_just_over_max() {
    assert!(MAX_FRAME == 1024 * 1024);
    length_case(&[0x81, 0x80, 0x40], 1024 * 1024 + 1);
}
#[kani::proof]
#[kani::unwind(12)]
#[kani::stub(alloc::fmt::format, crate::stubs::empty_format)]
fn c25_q_length_exactly_max() {
    length_case(&[0x80, 0x80, 0x40], 1024 * 1024);
}
#[cfg(feature = "thorough")]
#[kani::proof]
#[kani::unwind(12)]
#[kani::stub(alloc::fmt::format, crate::stubs::empty_format)]
fn c25_t_length_huge() {
    length_case(&[0xff, 0xff, 0xff, 0xff, 0x0f], 0xffff_ffff);
}
#[cfg(feature = "thorough")]
#[kani::proof]
#[kani::unwind(12)]
#[kani::stub(alloc::fmt::format, crate::stubs::empty_format)]
fn c25_t_length_small() {
    length_case(&[0x05], 5);
}

/// Hostile bytes: symbolic header byte, symbolic (one-byte) length < 4, N symbolic
/// following bytes: never panics, never yields more payload than declared.
fn hostile<const N: usize>() {
    let h: u8 = kani::any::<u8>() & 0x7f;
    let l: u8 = kani::any::<u8>() & 3;
    let rest: [u8; N] = kani::any();
    let mut c = CodecHook::default();
    let mut buf = BytesMut::with_capacity(64);
    buf.put_u8(h);
    buf.put_u8(l);
    put(&mut buf, &rest);
    let r = c.decode(&mut buf);
    match &r {
        Ok(Some(f)) => {
            assert!(h & 7 != 7 && l as usize <= N, "only complete frames of a known type decode");
            assert!(f.data.len() <= l as usize, "never more payload than declared");
            assert!(buf.len() == N - l as usize, "exactly the declared bytes are consumed");
        }
        Ok(None) => assert!(l as usize > N, "waiting only if the payload is incomplete"),
        Err(_) => assert!(h & 7 == 7, "errors only for the unknown type (lengths here are small)"),
    }
    kani::cover!(r.is_err(), "witness: rejected");
    kani::cover!(matches!(&r, Ok(None)), "witness: incomplete");
    std::mem::forget((r, buf));
}
#[kani::proof]
#[kani::unwind(12)]
#[kani::stub(alloc::fmt::format, crate::stubs::empty_format)]
fn c25_q_hostile_2() {
    hostile::<2>()
}
#[cfg(feature = "thorough")]
#[kani::proof]
#[kani::unwind(12)]
#[kani::stub(alloc::fmt::format, crate::stubs::empty_format)]
fn c25_t_hostile_4() {
    hostile::<4>()
}

#[cfg(verif_replay)]
include!(env!("VERIF_REPLAY_FILE"));

//! Kani harnesses over the wire-level crates (webrtc-utils stream state, prost-codec,
//! mplex codec, multistream-select): see /verif/DESIGN.md.
#![cfg_attr(kani, feature(allocator_api))]
#![allow(dead_code, unused_imports, unused_features)]
#[cfg(kani)]
pub(crate) mod stubs;
#[cfg(all(kani, feature = "c14"))]
mod c14;
#[cfg(all(kani, feature = "c19"))]
mod c19;
#[cfg(all(kani, feature = "c25"))]
mod c25;
#[cfg(all(kani, feature = "c56"))]
mod c56;
#[cfg(all(kani, feature = "c57"))]
mod c57;

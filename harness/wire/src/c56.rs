//! C56 — WebRTC stream half-close state machine is safe.
//!
//! Real code (via the `verif_hooks` mirror): every method of
//! `libp2p_webrtc_utils::stream::state::State`.  The harness drives the state exactly the
//! way `Stream::{poll_read, poll_write, poll_close, poll_close_read}` do (barrier first;
//! the `*_message_sent` / `*_closed` transition only after the barrier returned the
//! matching `Closing` value; inbound flags only where `Stream` processes them), with the
//! I/O outcome of each step (ready / pending, flag carried by the next message) symbolic.
//!
//!  * one step from EVERY state value (13 values): no call of the protocol panics
//!    (`unreachable!`, `debug_assert!`), and the barriers agree with the half-close
//!    status recorded in the state.
//!  * sequences of k steps from `Open` with ghost variables that record, independently of
//!    the state, whether each half has been closed by an event of the history: reads are
//!    allowed only while the read half is open, writes only while the write half is open,
//!    after RESET every operation fails with ConnectionReset.
use libp2p_webrtc_utils::verif_hooks::{InboundFlag, Machine, StateRepr};
use std::io::ErrorKind;

fn any_flag() -> InboundFlag {
    match kani::any::<u8>() % 3 {
        0 => InboundFlag::Fin,
        1 => InboundFlag::StopSending,
        _ => InboundFlag::Reset,
    }
}

fn any_state() -> StateRepr {
    let (a, b): (bool, bool) = (kani::any(), kani::any());
    match kani::any::<u8>() % 6 {
        0 => StateRepr::Open,
        1 => StateRepr::ReadClosed,
        2 => StateRepr::WriteClosed,
        3 => StateRepr::ClosingRead { write_closed: a, message_sent: b },
        4 => StateRepr::ClosingWrite { read_closed: a, message_sent: b },
        _ => StateRepr::BothClosed { reset: a },
    }
}

/// The operations `Stream` offers; each performs the same `State` calls as the real
/// `Stream` method, `io_ready` choosing whether the underlying sink/stream is ready.
#[derive(Clone, Copy, PartialEq, Eq)]
enum Op {
    /// `poll_read` that finds a message carrying `flag` (or no flag) / or EOF
    Read,
    /// `poll_write`
    Write,
    /// `poll_close` (close the write half)
    CloseWrite,
    /// `poll_close_read`
    CloseRead,
}

fn any_op() -> Op {
    match kani::any::<u8>() % 4 {
        0 => Op::Read,
        1 => Op::Write,
        2 => Op::CloseWrite,
        _ => Op::CloseRead,
    }
}

#[derive(Clone, Copy, PartialEq, Eq)]
enum Outcome {
    /// the operation was let through by its barrier
    Allowed,
    Pending,
    Failed(ErrorKind),
    /// close completed / was already complete
    Closed,
}

/// Ghost record of what the history has done to each half (independent of `State`).
#[derive(Clone, Copy)]
struct Ghost {
    read_closed: bool,
    write_closed: bool,
    reset: bool,
    /// a FIN / STOP_SENDING arrived while the other half was mid-close: the property text
    /// does not say whether the flag must still take effect (the code drops it), so the
    /// affected half is "don't care" from then on
    read_dont_care: bool,
    write_dont_care: bool,
}

fn apply_flag(m: &mut Machine, g: &mut Ghost, flag: InboundFlag) {
    let before = m.repr();
    m.handle_inbound_flag(flag, kani::any());
    match flag {
        InboundFlag::Reset => {
            g.reset = true;
            g.read_closed = true;
            g.write_closed = true;
        }
        InboundFlag::Fin => match before {
            StateRepr::ClosingWrite { .. } | StateRepr::ClosingRead { .. } => g.read_dont_care = true,
            _ => g.read_closed = true,
        },
        InboundFlag::StopSending => match before {
            StateRepr::ClosingWrite { .. } | StateRepr::ClosingRead { .. } => g.write_dont_care = true,
            _ => g.write_closed = true,
        },
    }
}

/// One `Stream` operation on the state machine, mirroring stream.rs call for call.
fn run(m: &mut Machine, g: &mut Ghost, op: Op) -> Outcome {
    match op {
        Op::Read => {
            // poll_read: barrier, then (if no buffered data) poll the channel
            if let Err(k) = m.read_barrier() {
                return Outcome::Failed(k);
            }
            match kani::any::<u8>() % 4 {
                0 => {} // buffered data was available / channel pending
                1 => apply_flag(m, g, any_flag()), // a message with a flag
                2 => {} // a message without a flag
                _ => apply_flag(m, g, InboundFlag::Fin), // channel EOF is treated as FIN
            }
            Outcome::Allowed
        }
        Op::Write => {
            // poll_write: while the read half is closed, flags are still read here
            let mut n = 0;
            while m.read_flags_in_async_write() && n < 2 {
                if kani::any() {
                    apply_flag(m, g, any_flag());
                } else {
                    break;
                }
                n += 1;
            }
            if let Err(k) = m.write_barrier() {
                return Outcome::Failed(k);
            }
            Outcome::Allowed
        }
        Op::CloseWrite => {
            let mut n = 0;
            loop {
                assert!(n < 3, "poll_close terminates within two barrier rounds");
                n += 1;
                match m.close_write_barrier() {
                    Err(k) => return Outcome::Failed(k),
                    Ok(None) => return Outcome::Closed,
                    Ok(Some(false)) => {
                        if !kani::any::<bool>() {
                            return Outcome::Pending; // sink not ready
                        }
                        g.write_closed = true; // FIN handed to the sink: write half is closed from here on
                        m.close_write_message_sent();
                    }
                    Ok(Some(true)) => {
                        if !kani::any::<bool>() {
                            return Outcome::Pending; // flush pending
                        }
                        m.write_closed();
                        return Outcome::Closed;
                    }
                }
            }
        }
        Op::CloseRead => {
            let mut n = 0;
            loop {
                assert!(n < 3, "poll_close_read terminates within two barrier rounds");
                n += 1;
                match m.close_read_barrier() {
                    Err(k) => return Outcome::Failed(k),
                    Ok(None) => return Outcome::Closed,
                    Ok(Some(false)) => {
                        if !kani::any::<bool>() {
                            return Outcome::Pending;
                        }
                        g.read_closed = true;
                        m.close_read_message_sent();
                    }
                    Ok(Some(true)) => {
                        if !kani::any::<bool>() {
                            return Outcome::Pending;
                        }
                        m.read_closed();
                        return Outcome::Closed;
                    }
                }
            }
        }
    }
}

/// One operation from EVERY state value: nothing panics; barrier verdicts agree with the
/// half-close status the state records; BothClosed is absorbing; after reset everything
/// fails with ConnectionReset.
#[kani::proof]
#[kani::unwind(5)]
fn c56_q_one_step_from_every_state() {
    let s = any_state();
    let mut m = Machine::new(s);
    assert!(m.repr() == s, "mirror round-trips");
    let mut g = Ghost { read_closed: false, write_closed: false, reset: false, read_dont_care: true, write_dont_care: true };
    let op = any_op();
    // what the state itself records about the halves
    let read_open = matches!(s, StateRepr::Open | StateRepr::WriteClosed | StateRepr::ClosingWrite { read_closed: false, .. });
    let write_open = matches!(s, StateRepr::Open | StateRepr::ReadClosed | StateRepr::ClosingRead { write_closed: false, .. });
    let out = run(&mut m, &mut g, op);
    match op {
        Op::Read => assert!((out == Outcome::Allowed) == read_open, "read passes its barrier exactly while the read half is open"),
        Op::Write => {
            // flags read inside poll_write (ReadClosed only) may close the write half first
            if !matches!(s, StateRepr::ReadClosed) {
                assert!((out == Outcome::Allowed) == write_open, "write passes its barrier exactly while the write half is open");
            }
        }
        _ => {}
    }
    if let StateRepr::BothClosed { reset } = s {
        assert!(m.repr() == s || (m.repr() == StateRepr::BothClosed { reset: true }), "BothClosed is absorbing (only a RESET flag may mark it reset)");
        match out {
            Outcome::Failed(k) => assert!(k == if reset { ErrorKind::ConnectionReset } else { ErrorKind::BrokenPipe }, "closed stream: ConnectionReset after reset, BrokenPipe otherwise"),
            _ => assert!(false, "every operation on a fully closed stream fails"),
        }
    }
    kani::cover!(matches!(s, StateRepr::ClosingWrite { message_sent: true, .. }) && op == Op::CloseWrite && out == Outcome::Closed, "witness: close completes");
    kani::cover!(matches!(s, StateRepr::BothClosed { reset: true }), "witness: reset state");
    kani::cover!(matches!(out, Outcome::Failed(ErrorKind::Other)), "witness: concurrent close of the other half refused");
}

fn sequence(steps: usize) {
    let mut m = Machine::new(StateRepr::Open);
    let mut g = Ghost { read_closed: false, write_closed: false, reset: false, read_dont_care: false, write_dont_care: false };
    let mut i = 0;
    while i < steps {
        let op = any_op();
        // ghost status BEFORE the operation decides what the operation may do
        let (rc, wc, reset) = (g.read_closed, g.write_closed, g.reset);
        let (rdc, wdc) = (g.read_dont_care, g.write_dont_care);
        let before = m.repr();
        let out = run(&mut m, &mut g, op);
        match op {
            Op::Read => {
                // (only this direction is part of the property: "allows reads only while its read
                // half is open"; a read refused while a local close_read is still pending is fine)
                if rc {
                    assert!(out != Outcome::Allowed, "no read once the read half has been closed (FIN received, close_read started, or reset)");
                }
                let _ = rdc;
            }
            Op::Write => {
                if wc {
                    assert!(out != Outcome::Allowed, "no write once the write half has been closed (STOP_SENDING received, close started, or reset)");
                }
                let _ = (wdc, before);
            }
            _ => {}
        }
        if reset {
            assert!(out == Outcome::Failed(ErrorKind::ConnectionReset), "after a reset every operation fails with ConnectionReset");
        }
        i += 1;
    }
    kani::cover!(g.reset, "witness: history with a reset");
    kani::cover!(g.read_closed && !g.write_closed && !g.reset, "witness: only the read half closed");
    kani::cover!(m.repr() == StateRepr::BothClosed { reset: false }, "witness: both halves closed gracefully");
    std::mem::forget(m);
}

#[kani::proof]
#[kani::unwind(6)]
fn c56_q_sequences_4() {
    sequence(4)
}

#[cfg(feature = "thorough")]
#[kani::proof]
#[kani::unwind(8)]
fn c56_t_sequences_6() {
    sequence(6)
}

#[cfg(verif_replay)]
include!(env!("VERIF_REPLAY_FILE"));

//! C19 — a pre-shared key file parses back to its key and parsing any text never panics
//! (key-line parser only).
//!
//! Real code (via hook): `libp2p_pnet::parse_hex_key`, the function `PreSharedKey::from_str`
//! hands the third line of a key file to.  Input: a 64-byte line of hex digits in which a
//! window of 4 bytes (at the start, in the middle, at the end) is symbolic, constrained only
//! to be valid UTF-8 (it is a `&str`).  Asserted: never panics; all-hex-digit lines parse
//! to exactly the bytes they spell; a line that parses contains only ASCII.
use libp2p_pnet::verif_hooks::parse_hex_key;

fn hex_val(c: u8) -> Option<u8> {
    match c {
        b'0'..=b'9' => Some(c - b'0'),
        b'a'..=b'f' => Some(c - b'a' + 10),
        b'A'..=b'F' => Some(c - b'A' + 10),
        _ => None,
    }
}

fn cont(b: u8) -> bool {
    b >= 0x80 && b <= 0xbf
}
/// One well-formed UTF-8 scalar starting at w[i] occupying `n` bytes (Unicode table 3-7).
fn scalar(w: &[u8; 4], i: usize, n: usize) -> bool {
    match n {
        1 => w[i] < 0x80,
        2 => w[i] >= 0xc2 && w[i] <= 0xdf && cont(w[i + 1]),
        3 => {
            let (a, b) = (w[i], w[i + 1]);
            cont(w[i + 2])
                && ((a == 0xe0 && b >= 0xa0 && b <= 0xbf)
                    || (a >= 0xe1 && a <= 0xec && cont(b))
                    || (a == 0xed && b >= 0x80 && b <= 0x9f)
                    || (a >= 0xee && a <= 0xef && cont(b)))
        }
        _ => {
            let (a, b) = (w[i], w[i + 1]);
            cont(w[i + 2])
                && cont(w[i + 3])
                && ((a == 0xf0 && b >= 0x90 && b <= 0xbf) || (a >= 0xf1 && a <= 0xf3 && cont(b)) || (a == 0xf4 && b >= 0x80 && b <= 0x8f))
        }
    }
}
/// The 4-byte window is a sequence of complete UTF-8 scalars (written out loop-free: running
/// `str::from_utf8` over the whole line makes symbolic execution fork at every byte).
fn window_is_utf8(w: &[u8; 4]) -> bool {
    (scalar(w, 0, 1) && scalar(w, 1, 1) && scalar(w, 2, 1) && scalar(w, 3, 1))
        || (scalar(w, 0, 2) && scalar(w, 2, 1) && scalar(w, 3, 1))
        || (scalar(w, 0, 1) && scalar(w, 1, 2) && scalar(w, 3, 1))
        || (scalar(w, 0, 1) && scalar(w, 1, 1) && scalar(w, 2, 2))
        || (scalar(w, 0, 2) && scalar(w, 2, 2))
        || (scalar(w, 0, 3) && scalar(w, 3, 1))
        || (scalar(w, 0, 1) && scalar(w, 1, 3))
        || scalar(w, 0, 4)
}

fn key_line<const AT: usize>() {
    let mut line = [b'a'; 64];
    let w: [u8; 4] = kani::any();
    let mut i = 0;
    while i < 4 {
        line[AT + i] = w[i];
        i += 1;
    }
    kani::assume(window_is_utf8(&w)); // the input is a &str
    // SAFETY: 60 ASCII bytes plus a window of complete UTF-8 scalars.
    let s = unsafe { std::str::from_utf8_unchecked(&line) };
    let r = parse_hex_key(s); // must not panic
    let all_hex = hex_val(w[0]).is_some() && hex_val(w[1]).is_some() && hex_val(w[2]).is_some() && hex_val(w[3]).is_some();
    if all_hex {
        match &r {
            Ok(k) => {
                // every key byte touched by the window (the window may straddle byte pairs)
                let mut i = AT / 2;
                while i <= (AT + 3) / 2 && i < 32 {
                    let want = hex_val(line[2 * i]).unwrap() * 16 + hex_val(line[2 * i + 1]).unwrap();
                    assert!(k[i] == want, "key bytes are what the hex digits spell");
                    i += 1;
                }
                assert!(k[(AT / 2 + 3) % 32] == 0xaa, "other bytes unaffected");
            }
            Err(_) => assert!(false, "a line of 64 hex digits is a valid key"),
        }
    }
    if r.is_ok() {
        assert!(w[0] < 0x80 && w[1] < 0x80 && w[2] < 0x80 && w[3] < 0x80, "only ASCII lines can be keys");
    }
    kani::cover!(all_hex, "witness: valid key line");
    kani::cover!(w[0] >= 0xc0, "witness: line with a multi-byte character");
    std::mem::forget(r);
}

#[kani::proof]
#[kani::unwind(70)]
#[kani::stub(alloc::fmt::format, crate::stubs::empty_format)]
fn c19_q_key_line_window_at_start() {
    key_line::<0>()
}
#[kani::proof]
#[kani::unwind(70)]
#[kani::stub(alloc::fmt::format, crate::stubs::empty_format)]
fn c19_q_key_line_window_at_end() {
    key_line::<60>()
}
#[cfg(feature = "thorough")]
#[kani::proof]
#[kani::unwind(70)]
#[kani::stub(alloc::fmt::format, crate::stubs::empty_format)]
fn c19_t_key_line_window_in_middle() {
    key_line::<30>()
}
#[cfg(feature = "thorough")]
#[kani::proof]
#[kani::unwind(70)]
#[kani::stub(alloc::fmt::format, crate::stubs::empty_format)]
fn c19_t_key_line_window_odd_offset() {
    key_line::<31>()
}

#[cfg(verif_replay)]
include!(env!("VERIF_REPLAY_FILE"));

//! C10 — idle connections close only when truly idle (the shutdown-planning kernel).
//!
//! Real code (via hook): `connection::compute_new_shutdown` (which shutdown state a
//! connection enters given the handler's keep-alive wish, its current shutdown state and
//! the idle timeout) and `connection::checked_add_fraction` (the delay actually armed),
//! with the clock symbolic (`web-time` shim).  Oracle from the property text: a handler
//! that asks to keep the connection alive always cancels a planned shutdown; without
//! keep-alive a zero idle timeout closes as soon as possible, an armed timer is left
//! ticking, otherwise a timer is armed; the armed delay is the idle timeout (never
//! longer), and shorter only when `now + idle_timeout` is not representable.
use libp2p_swarm::verif_hooks::{idle_delay, new_shutdown_kind, ShutdownKind};
use std::time::Duration;
use web_time::{verif, Instant};

fn any_kind() -> ShutdownKind {
    match kani::any::<u8>() % 3 {
        0 => ShutdownKind::None,
        1 => ShutdownKind::Asap,
        _ => ShutdownKind::Later,
    }
}

#[kani::proof]
#[kani::unwind(4)]
fn c10_q_shutdown_planning() {
    let now: (u64, u32) = (kani::any(), kani::any());
    kani::assume(now.0 < 1 << 40 && now.1 < 1_000_000_000);
    verif::set_now_parts(now.0, now.1);
    let keep_alive: bool = kani::any();
    let current = any_kind();
    let (s, n): (u64, u32) = (kani::any(), kani::any());
    kani::assume(s < 1 << 40 && n < 1_000_000_000);
    let idle = Duration::new(s, n);
    let new = new_shutdown_kind(keep_alive, current, idle);
    if keep_alive {
        assert!(new == Some(ShutdownKind::None), "a handler that wants the connection kept alive cancels any planned shutdown");
    } else if idle == Duration::ZERO {
        assert!(new == Some(ShutdownKind::Asap), "no keep-alive and a zero idle timeout: close as soon as possible");
    } else if current == ShutdownKind::Later {
        assert!(new.is_none(), "an armed idle timer keeps ticking (it is neither restarted nor shortened)");
    } else {
        assert!(new == Some(ShutdownKind::Later), "idle without a timer: an idle timer is armed, the connection is not closed at once");
    }
    kani::cover!(keep_alive && current == ShutdownKind::Later, "witness: keep-alive flips while a timer is armed");
    kani::cover!(!keep_alive && current == ShutdownKind::Asap && idle != Duration::ZERO, "witness: re-arming from Asap");
}

/// The armed delay: exactly the idle timeout whenever `now + idle_timeout` is
/// representable, never longer, and always representable.
#[kani::proof]
// a Duration is < 2^64 s * 10^9 ns < 2^94 ns, so at most 95 halvings reach zero: unwind 97
#[kani::unwind(97)]
fn c10_q_idle_delay_is_the_idle_timeout() {
    let now: (u64, u32) = (kani::any(), kani::any());
    kani::assume(now.1 < 1_000_000_000);
    let start = verif::instant_from_parts(now.0, now.1);
    let (s, n): (u64, u32) = (kani::any(), kani::any());
    kani::assume(n < 1_000_000_000);
    let idle = Duration::new(s, n);
    let d = idle_delay(start, idle);
    assert!(d <= idle, "the armed delay is never longer than the configured idle timeout");
    assert!(start.checked_add(d).is_some(), "the deadline is representable");
    if start.checked_add(idle).is_some() {
        assert!(d == idle, "closed no earlier than the idle timeout: the full timeout is armed whenever it is representable");
    }
    kani::cover!(start.checked_add(idle).is_none(), "witness: overflowing deadline");
    kani::cover!(start.checked_add(idle).is_some() && s > 0, "witness: ordinary deadline");
}

#[cfg(verif_replay)]
include!(env!("VERIF_REPLAY_FILE"));

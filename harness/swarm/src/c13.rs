//! C13 — observed-address translation only swaps the host component.
//!
//! Real code: `libp2p_swarm::_address_translation` (public).  One harness instance per
//! (original shape, observed shape); IP addresses and ports symbolic.  Oracle: the
//! property text — result = first component of `observed` followed by every component of
//! `original` after the first, iff both first components are IP/DNS; otherwise `None`.
use libp2p_core::multiaddr::{Multiaddr, Protocol};
use libp2p_swarm::_address_translation;
use std::net::{Ipv4Addr, Ipv6Addr};

fn same_bytes(a: &Multiaddr, b: &Multiaddr) -> bool {
    let (x, y): (&[u8], &[u8]) = (a.as_ref(), b.as_ref());
    if x.len() != y.len() {
        return false;
    }
    let mut i = 0;
    while i < x.len() {
        if x[i] != y[i] {
            return false;
        }
        i += 1;
    }
    true
}

struct Sym {
    a4: Ipv4Addr,
    b4: Ipv4Addr,
    c4: Ipv4Addr,
    a6: Ipv6Addr,
    b6: Ipv6Addr,
    p: u16,
    q: u16,
    r: u16,
}

fn sym() -> Sym {
    Sym {
        a4: Ipv4Addr::from(kani::any::<u32>()),
        b4: Ipv4Addr::from(kani::any::<u32>()),
        c4: Ipv4Addr::from(kani::any::<u32>()),
        a6: Ipv6Addr::from(kani::any::<u128>()),
        b6: Ipv6Addr::from(kani::any::<u128>()),
        p: kani::any(),
        q: kani::any(),
        r: kani::any(),
    }
}

fn e() -> Multiaddr {
    Multiaddr::empty()
}

/// `$orig`, `$obs`: expressions building the two addresses from `s: &Sym`;
/// `$want`: `Some(expr)` building the expected result, or `None`.
macro_rules! tr {
    ($name:ident, |$s:ident| $orig:expr, $obs:expr, Some($want:expr)) => {
        #[kani::proof]
        #[kani::unwind(40)]
        fn $name() {
            let $s = &sym();
            let (orig, obs, want) = ($orig, $obs, $want);
            let got = _address_translation(&orig, &obs);
            match &got {
                Some(g) => assert!(same_bytes(g, &want), "result = observed host followed by the original's remaining components, unchanged"),
                None => assert!(false, "both addresses start with an IP/DNS component: a translation must be produced"),
            }
            kani::cover!(true, "witness: harness completes");
            std::mem::forget((orig, obs, want, got));
        }
    };
    ($name:ident, |$s:ident| $orig:expr, $obs:expr, None) => {
        #[kani::proof]
        #[kani::unwind(40)]
        fn $name() {
            let $s = &sym();
            let (orig, obs) = ($orig, $obs);
            let got = _address_translation(&orig, &obs);
            assert!(got.is_none(), "no translation unless BOTH first components are IP/DNS");
            kani::cover!(true, "witness: harness completes");
            std::mem::forget((orig, obs, got));
        }
    };
}

// quick tier
tr!(c13_q_ip4tcp_by_ip4tcp, |s| e().with(Protocol::Ip4(s.a4)).with(Protocol::Tcp(s.p)),
    e().with(Protocol::Ip4(s.b4)).with(Protocol::Tcp(s.q)),
    Some(e().with(Protocol::Ip4(s.b4)).with(Protocol::Tcp(s.p))));
tr!(c13_q_ip4tcp_by_ip6tcp, |s| e().with(Protocol::Ip4(s.a4)).with(Protocol::Tcp(s.p)),
    e().with(Protocol::Ip6(s.b6)).with(Protocol::Tcp(s.q)),
    Some(e().with(Protocol::Ip6(s.b6)).with(Protocol::Tcp(s.p))));
tr!(c13_q_two_hosts_tail_preserved, |s| e().with(Protocol::Ip4(s.a4)).with(Protocol::Ip4(s.c4)),
    e().with(Protocol::Ip4(s.b4)),
    Some(e().with(Protocol::Ip4(s.b4)).with(Protocol::Ip4(s.c4))));
tr!(c13_q_observed_host_not_first, |s| e().with(Protocol::Ip4(s.a4)).with(Protocol::Tcp(s.p)),
    e().with(Protocol::Tcp(s.q)).with(Protocol::Ip4(s.b4)),
    None);
tr!(c13_q_original_without_host, |s| e().with(Protocol::Tcp(s.p)).with(Protocol::Ip4(s.a4)),
    e().with(Protocol::Ip4(s.b4)).with(Protocol::Tcp(s.q)),
    None);

// observed host = an IPv4-mapped IPv6 address (what a dual-stack socket reports): 96 concrete
// bits, 32 symbolic; the result must still start with that very /ip6 component
tr!(c13_q_ip4tcp_by_mapped_ip6, |s| e().with(Protocol::Ip4(s.a4)).with(Protocol::Tcp(s.p)),
    e().with(Protocol::Ip6(s.b4.to_ipv6_mapped())).with(Protocol::Tcp(s.q)),
    Some(e().with(Protocol::Ip6(s.b4.to_ipv6_mapped())).with(Protocol::Tcp(s.p))));

// thorough tier (shapes with a DNS string component or three and more components were tried and
// do not finish: every component read back from the heap-allocated Multiaddr forks symbolic execution)
#[cfg(feature = "thorough")]
tr!(c13_t_ip6_by_ip4, |s| e().with(Protocol::Ip6(s.a6)).with(Protocol::Tcp(s.p)),
    e().with(Protocol::Ip4(s.b4)).with(Protocol::Tcp(s.q)),
    Some(e().with(Protocol::Ip4(s.b4)).with(Protocol::Tcp(s.p))));
#[cfg(feature = "thorough")]
tr!(c13_t_observed_empty, |s| e().with(Protocol::Ip4(s.a4)).with(Protocol::Tcp(s.p)), e(), None);
#[cfg(feature = "thorough")]
tr!(c13_t_original_empty, |s| e(), e().with(Protocol::Ip4(s.b4)).with(Protocol::Tcp(s.q)), None);
#[cfg(feature = "thorough")]
tr!(c13_t_original_memory, |s| e().with(Protocol::Memory(s.p as u64)), e().with(Protocol::Ip4(s.b4)), None);
#[cfg(feature = "thorough")]
tr!(c13_t_observed_circuit_first, |s| e().with(Protocol::Ip4(s.a4)).with(Protocol::Tcp(s.p)),
    e().with(Protocol::P2pCircuit).with(Protocol::Ip4(s.b4)), None);

#[cfg(verif_replay)]
include!(env!("VERIF_REPLAY_FILE"));

//! Kani harnesses over libp2p-swarm (and connection-limits): see /verif/DESIGN.md.
#![cfg_attr(kani, feature(allocator_api))]
#![allow(dead_code, unused_imports, unused_features)]
#[cfg(kani)]
pub(crate) mod stubs;
#[cfg(all(kani, feature = "c02"))]
mod c02;
#[cfg(all(kani, feature = "c03"))]
mod c03;
#[cfg(all(kani, feature = "c09"))]
mod c09;
#[cfg(all(kani, feature = "c10"))]
mod c10;
#[cfg(all(kani, feature = "c13"))]
mod c13;
#[cfg(all(kani, feature = "c52"))]
mod c52;
#[cfg(all(kani, feature = "c58"))]
mod c58;

//! C22 — global-only transport never dials non-global IPs.
//!
//! Real code: `libp2p_core::transport::global_only::Transport::dial` (and through it
//! `ipv4_global::is_global`, `ipv6_global::is_global`), wrapped around a recording
//! inner transport.  Oracle: the IANA IPv4/IPv6 special-purpose address registries as a
//! prefix table written here from the registry (not from the code under test).

use std::{
    net::{Ipv4Addr, Ipv6Addr},
    pin::Pin,
    task::{Context, Poll},
};

use futures::future::{self, Ready};
use libp2p_core::{
    multiaddr::{Multiaddr, Protocol},
    transport::{
        global_only, DialOpts, ListenerId, PortUse, Transport, TransportError, TransportEvent,
    },
    Endpoint,
};

/// Inner transport that records what it was asked to dial (harnesses are single-threaded).
struct Rec;
static mut CALLS: u32 = 0;
static mut LAST: Option<Multiaddr> = None;

impl Transport for Rec {
    type Output = ();
    type Error = std::io::Error;
    type ListenerUpgrade = Ready<Result<(), std::io::Error>>;
    type Dial = Ready<Result<(), std::io::Error>>;

    fn listen_on(&mut self, _: ListenerId, _: Multiaddr) -> Result<(), TransportError<Self::Error>> {
        Ok(())
    }
    fn remove_listener(&mut self, _: ListenerId) -> bool {
        false
    }
    fn dial(&mut self, addr: Multiaddr, _: DialOpts) -> Result<Self::Dial, TransportError<Self::Error>> {
        unsafe {
            CALLS += 1;
            LAST = Some(addr);
        }
        Ok(future::ready(Ok(())))
    }
    fn poll(self: Pin<&mut Self>, _: &mut Context<'_>) -> Poll<TransportEvent<Self::ListenerUpgrade, Self::Error>> {
        Poll::Pending
    }
}

fn opts() -> DialOpts {
    DialOpts { role: Endpoint::Dialer, port_use: PortUse::Reuse }
}

#[derive(PartialEq, Eq, Clone, Copy)]
enum Reg {
    /// in a block marked "Globally Reachable: False" and in no more specific "True" block
    NotGlobal,
    /// in no special-purpose block at all
    Ordinary,
    /// in a "True" / "N/A" block, or a more-specific carve-out: the property leaves it open
    DontCare,
}

fn in4(a: u32, net: [u8; 4], len: u32) -> bool {
    let n = u32::from_be_bytes(net);
    let mask = if len == 0 { 0 } else { u32::MAX << (32 - len) };
    a & mask == n & mask
}

/// IANA IPv4 Special-Purpose Address Registry.
fn reg4(ip: Ipv4Addr) -> Reg {
    let a = u32::from_be_bytes(ip.octets());
    // Globally Reachable = True or N/A entries (and more specific carve-outs)
    let open = in4(a, [192, 0, 0, 9], 32)       // Port Control Protocol Anycast
        || in4(a, [192, 0, 0, 10], 32)          // TURN Anycast
        || in4(a, [192, 31, 196, 0], 24)        // AS112-v4
        || in4(a, [192, 52, 193, 0], 24)        // AMT
        || in4(a, [192, 88, 99, 0], 24)         // deprecated 6to4 relay anycast (N/A)
        || in4(a, [192, 175, 48, 0], 24); // Direct Delegation AS112 Service
    if open {
        return Reg::DontCare;
    }
    let not_global = in4(a, [0, 0, 0, 0], 8)    // "This network"
        || in4(a, [10, 0, 0, 0], 8)             // Private-Use
        || in4(a, [100, 64, 0, 0], 10)          // Shared Address Space
        || in4(a, [127, 0, 0, 0], 8)            // Loopback
        || in4(a, [169, 254, 0, 0], 16)         // Link Local
        || in4(a, [172, 16, 0, 0], 12)          // Private-Use
        || in4(a, [192, 0, 0, 0], 24)           // IETF Protocol Assignments (incl. /29, .8, .170, .171)
        || in4(a, [192, 0, 2, 0], 24)           // TEST-NET-1
        || in4(a, [192, 168, 0, 0], 16)         // Private-Use
        || in4(a, [198, 18, 0, 0], 15)          // Benchmarking
        || in4(a, [198, 51, 100, 0], 24)        // TEST-NET-2
        || in4(a, [203, 0, 113, 0], 24)         // TEST-NET-3
        || in4(a, [240, 0, 0, 0], 4); // Reserved (includes 255.255.255.255 Limited Broadcast)
    if not_global {
        Reg::NotGlobal
    } else {
        Reg::Ordinary
    }
}

fn in6(a: u128, net: [u16; 8], len: u32) -> bool {
    let mut n: u128 = 0;
    let mut i = 0;
    while i < 8 {
        n = (n << 16) | net[i] as u128;
        i += 1;
    }
    let mask = if len == 0 { 0 } else { u128::MAX << (128 - len) };
    a & mask == n & mask
}

/// IANA IPv6 Special-Purpose Address Registry.
fn reg6(ip: Ipv6Addr) -> Reg {
    let a = u128::from_be_bytes(ip.octets());
    let open = in6(a, [0x64, 0xff9b, 0, 0, 0, 0, 0, 0], 96) // IPv4-IPv6 Translat. (True)
        || in6(a, [0x2001, 0, 0, 0, 0, 0, 0, 0], 32)        // TEREDO (N/A)
        || in6(a, [0x2001, 1, 0, 0, 0, 0, 0, 1], 128)       // PCP Anycast (True)
        || in6(a, [0x2001, 1, 0, 0, 0, 0, 0, 2], 128)       // TURN Anycast (True)
        || in6(a, [0x2001, 1, 0, 0, 0, 0, 0, 3], 128)       // DNS-SD SRP Anycast (True)
        || in6(a, [0x2001, 3, 0, 0, 0, 0, 0, 0], 32)        // AMT (True)
        || in6(a, [0x2001, 4, 0x112, 0, 0, 0, 0, 0], 48)    // AS112-v6 (True)
        || in6(a, [0x2001, 0x10, 0, 0, 0, 0, 0, 0], 28)     // deprecated ORCHID
        || in6(a, [0x2001, 0x20, 0, 0, 0, 0, 0, 0], 28)     // ORCHIDv2 (True)
        || in6(a, [0x2001, 0x30, 0, 0, 0, 0, 0, 0], 28)     // DRIP DETs (True)
        || in6(a, [0x2002, 0, 0, 0, 0, 0, 0, 0], 16)        // 6to4 (N/A)
        || in6(a, [0x2620, 0x4f, 0x8000, 0, 0, 0, 0, 0], 48) // Direct Delegation AS112 (True)
        // Dummy IPv6 Prefix (RFC 9780, added to the registry in 2025, Globally Reachable: False).
        // The only registry copy available offline (core::net::Ipv6Addr::is_global of the
        // installed nightly) does not list it yet, so it is left open rather than risk a
        // false alarm from a table entry that cannot be cross-checked here.
        || in6(a, [0x100, 0, 0, 1, 0, 0, 0, 0], 64);
    if open {
        return Reg::DontCare;
    }
    let not_global = in6(a, [0, 0, 0, 0, 0, 0, 0, 1], 128) // Loopback
        || in6(a, [0, 0, 0, 0, 0, 0, 0, 0], 128)           // Unspecified
        || in6(a, [0, 0, 0, 0, 0, 0xffff, 0, 0], 96)       // IPv4-mapped
        || in6(a, [0x64, 0xff9b, 1, 0, 0, 0, 0, 0], 48)    // IPv4-IPv6 Translat. (local use)
        || in6(a, [0x100, 0, 0, 0, 0, 0, 0, 0], 64)        // Discard-Only
        || in6(a, [0x2001, 0, 0, 0, 0, 0, 0, 0], 23)       // IETF Protocol Assignments
        || in6(a, [0x2001, 0xdb8, 0, 0, 0, 0, 0, 0], 32)   // Documentation
        || in6(a, [0x3fff, 0, 0, 0, 0, 0, 0, 0], 20)       // Documentation (RFC 9637)
        || in6(a, [0x5f00, 0, 0, 0, 0, 0, 0, 0], 16)       // Segment Routing (SRv6) SIDs
        || in6(a, [0xfc00, 0, 0, 0, 0, 0, 0, 0], 7)        // Unique-Local
        || in6(a, [0xfe80, 0, 0, 0, 0, 0, 0, 0], 10); // Link-Local Unicast
    if not_global {
        Reg::NotGlobal
    } else {
        Reg::Ordinary
    }
}

fn same_bytes(a: &Multiaddr, b: &Multiaddr) -> bool {
    let (x, y): (&[u8], &[u8]) = (a.as_ref(), b.as_ref());
    if x.len() != y.len() {
        return false;
    }
    let mut i = 0;
    while i < x.len() {
        if x[i] != y[i] {
            return false;
        }
        i += 1;
    }
    true
}

/// `addr` and `expect` are built separately by the caller with identical contents
/// (an `Arc` clone makes CBMC lose constant propagation on the protocol code bytes and
/// the harness blow up: measured 13 s vs > 20 min).
fn check(addr: Multiaddr, expect: Multiaddr, class: Reg) {
    let mut t = global_only::Transport::new(Rec);
    let res = t.dial(addr, opts());
    let calls = unsafe { CALLS };
    #[allow(static_mut_refs)]
    let last = unsafe { LAST.take() };
    match class {
        Reg::NotGlobal => {
            assert!(
                matches!(&res, Err(TransportError::MultiaddrNotSupported(a)) if same_bytes(a, &expect)),
                "non-global / non-IP address must be refused with MultiaddrNotSupported(addr)"
            );
            assert!(calls == 0, "inner transport must not be asked to dial a refused address");
        }
        Reg::Ordinary => {
            assert!(res.is_ok(), "ordinary (non-special-purpose) address must be passed on");
            assert!(calls == 1, "inner transport dialed exactly once");
            assert!(
                matches!(&last, Some(a) if same_bytes(a, &expect)),
                "inner transport receives the identical address"
            );
        }
        Reg::DontCare => {
            // either outcome, but consistent: passed on ⇔ inner called exactly once
            assert!(res.is_ok() == (calls == 1), "refused xor passed to inner");
            assert!(calls <= 1);
        }
    }
    std::mem::forget(res);
    std::mem::forget(last);
    std::mem::forget(expect);
    std::mem::forget(t);
}

#[kani::proof]
#[kani::unwind(24)]
fn c22_q_ipv4_all() {
    let ip = Ipv4Addr::from(kani::any::<u32>());
    let port: u16 = kani::any();
    let mk = || Multiaddr::empty().with(Protocol::Ip4(ip)).with(Protocol::Tcp(port));
    let class = reg4(ip);
    kani::cover!(class == Reg::NotGlobal, "witness: some non-global v4");
    kani::cover!(class == Reg::Ordinary, "witness: some ordinary v4");
    check(mk(), mk(), class);
}

#[kani::proof]
#[kani::unwind(24)]
fn c22_q_ipv6_all() {
    let ip = Ipv6Addr::from(kani::any::<u128>());
    let port: u16 = kani::any();
    let mk = || Multiaddr::empty().with(Protocol::Ip6(ip)).with(Protocol::Tcp(port));
    let class = reg6(ip);
    kani::cover!(class == Reg::NotGlobal, "witness: some non-global v6");
    kani::cover!(class == Reg::Ordinary, "witness: some ordinary v6");
    check(mk(), mk(), class);
}

/// Addresses that do not start with an IP component are refused whatever follows
/// (one harness instance per concrete shape; contents symbolic).
macro_rules! non_ip {
    ($name:ident, |$ip:ident, $port:ident| $mk:expr) => {
        #[kani::proof]
        #[kani::unwind(24)]
        fn $name() {
            let $ip = Ipv4Addr::from(kani::any::<u32>());
            let $port: u16 = kani::any();
            let mk = || $mk;
            kani::cover!($port == 443, "witness: harness body reached");
            check(mk(), mk(), Reg::NotGlobal);
        }
    };
}
non_ip!(c22_q_nonip_empty, |_ip, _port| Multiaddr::empty());
non_ip!(c22_q_nonip_tcp_then_ip, |ip, port| Multiaddr::empty().with(Protocol::Tcp(port)).with(Protocol::Ip4(ip)));
non_ip!(c22_q_nonip_memory, |_ip, port| Multiaddr::empty().with(Protocol::Memory(port as u64)));
#[cfg(feature = "thorough")]
non_ip!(c22_t_nonip_udp_quic, |_ip, port| Multiaddr::empty().with(Protocol::Udp(port)).with(Protocol::QuicV1));
#[cfg(feature = "thorough")]
non_ip!(c22_t_nonip_circuit_then_ip, |ip, _port| Multiaddr::empty().with(Protocol::P2pCircuit).with(Protocol::Ip4(ip)));
// (a DNS-first shape, `/dns4/x/tcp/P`, was tried and dropped: the string component read back
// from the heap Multiaddr makes symbolic execution fork without bound; no result in 40 min)

#[cfg(verif_replay)]
include!(env!("VERIF_REPLAY_FILE"));

//! C20 — identities have faithful, total encodings (PeerId byte layer).
//!
//! Real code: `libp2p_identity::PeerId::{from_bytes, to_bytes, from_multihash}` and
//! `Multihash::<64>::from_bytes` underneath.  Input: N symbolic bytes (N concrete per
//! harness instance).  Oracle (from the property text and the multihash format): accepted
//! iff the bytes are exactly `[code, len, digest(len bytes)]` with code 0x00 (identity) and
//! len <= 42, or code 0x12 (SHA2-256) and len == 32; SHA2-256 code with another digest
//! length is left open (the text says "SHA2-256 multihashes"); everything else is rejected.
use libp2p_identity::PeerId;

const MAX_INLINE: usize = 42;

fn from_bytes_total<const N: usize>() {
    let b: [u8; N] = kani::any();
    let r = PeerId::from_bytes(&b);
    // Canonical PeerId encodings have single-byte code and size varints (code 0x00 / 0x12,
    // digest <= 64 bytes).  Inputs that spell either varint with several bytes are a class
    // of their own (see known_findings.txt: a 10-byte varint whose last byte overflows u64
    // is silently truncated by the varint reader underneath).
    if N >= 2 && (b[0] >= 0x80 || b[1] >= 0x80) {
        assert!(r.is_err(), "a multi-byte (non-canonical or overflowing) code or size varint is rejected");
    }
    let well_formed = N >= 2 && b[0] < 0x80 && b[1] as usize == N - 2 && b[1] < 0x80;
    let identity_ok = well_formed && b[0] == 0x00 && N - 2 <= MAX_INLINE;
    let sha256_ok = well_formed && b[0] == 0x12 && N - 2 == 32;
    let sha256_odd = well_formed && b[0] == 0x12 && N - 2 != 32; // left open
    if identity_ok || sha256_ok {
        assert!(r.is_ok(), "identity multihashes of at most 42 bytes and SHA2-256 multihashes are accepted");
    } else if !sha256_odd {
        assert!(r.is_err(), "everything else is rejected with an error");
    }
    if let Ok(p) = &r {
        let out = p.to_bytes();
        assert!(out.len() == N, "to_bytes has the input length");
        let mut i = 0;
        while i < N {
            assert!(out[i] == b[i], "to_bytes(from_bytes(b)) == b");
            i += 1;
        }
        // (from_bytes(to_bytes(p)) == p follows: to_bytes(p) == b was just asserted and
        // from_bytes is a function of the bytes)
        std::mem::forget(out);
    }
    kani::cover!(N < 2 || identity_ok || N - 2 > MAX_INLINE, "witness: acceptable identity id");
    kani::cover!(r.is_err(), "witness: rejected input");
    std::mem::forget(r);
}

macro_rules! fb {
    ($name:ident, $n:expr) => {
        #[kani::proof]
        #[kani::unwind(70)]
        #[kani::stub(alloc::fmt::format, crate::stubs::empty_format)]
        fn $name() {
            from_bytes_total::<$n>()
        }
    };
}
fb!(c20_q_from_bytes_0, 0);
fb!(c20_q_from_bytes_1, 1);
fb!(c20_q_from_bytes_2, 2);
fb!(c20_q_from_bytes_3, 3);
#[cfg(feature = "thorough")]
fb!(c20_t_from_bytes_6, 6);
#[cfg(feature = "thorough")]
fb!(c20_t_from_bytes_4, 4);
#[cfg(feature = "thorough")]
fb!(c20_t_from_bytes_34, 34);
fb!(c20_q_from_bytes_44, 44);
#[cfg(feature = "thorough")]
fb!(c20_t_from_bytes_45, 45);
#[cfg(feature = "thorough")]
fb!(c20_t_from_bytes_36, 36);

#[cfg(verif_replay)]
include!(env!("VERIF_REPLAY_FILE"));

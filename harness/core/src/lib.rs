//! Kani harnesses over libp2p-core (and crates that only need core): see /verif/DESIGN.md.
//! One module per property, selected by cargo feature so that a check only generates
//! code for its own harnesses; `thorough` adds the `*_t_*` harnesses.
#![cfg_attr(kani, feature(allocator_api))]
#![allow(dead_code, unused_imports, unused_features)]
#[cfg(kani)]
pub(crate) mod stubs;
#[cfg(all(kani, feature = "c20"))]
mod c20;
#[cfg(all(kani, feature = "c22"))]
mod c22;

#![cfg_attr(kani, feature(allocator_api))]
#![allow(dead_code, unused_imports)]
#[cfg(kani)]
mod c22;

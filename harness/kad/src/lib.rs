//! Kani harnesses over libp2p-kad (through its cfg(libp2p_verif) hooks): see /verif/DESIGN.md.
#![cfg_attr(kani, feature(allocator_api))]
#![allow(dead_code, unused_imports, unused_features)]
#[cfg(kani)]
pub(crate) mod util;
#[cfg(all(kani, feature = "c37"))]
mod c37;
#[cfg(all(kani, feature = "c38"))]
mod c38;
#[cfg(all(kani, feature = "c40"))]
mod c40;
#[cfg(all(kani, feature = "c42"))]
mod c42;
#[cfg(all(kani, feature = "c44"))]
mod c44;

//! C42 — record lifetimes are never extended or lost in transit.
//!
//! Real code (via hooks): `protocol::record_to_proto` (wire TTL of an outgoing record),
//! `protocol::record_from_proto` (expiry assigned to an incoming record),
//! `behaviour::earliest_expiry` (merge of the sender's expiry with the local TTL, used by
//! `Behaviour::record_received`) and `behaviour::exp_decrease`.  Time is the `web-time`
//! shim clock, so `now` and every expiry are symbolic instants.
use libp2p_kad::verif_hooks::{decreased_ttl, merged_expiry, record_expiry_from_wire_ttl, record_wire_ttl};
use std::time::Duration;
use web_time::{verif, Instant};

const NS: u32 = 1_000_000_000;

/// Symbolic instant as (secs, nanos); secs < 2^40 (~35 000 years) keeps all sums in range.
fn any_parts() -> (u64, u32) {
    let (s, n): (u64, u32) = (kani::any(), kani::any());
    kani::assume(s < 1 << 40 && n < NS);
    (s, n)
}
fn any_now() -> (u64, u32) {
    let (s, n) = any_parts();
    kani::assume(s >= 1 << 10);
    verif::set_now_parts(s, n);
    (s, n)
}
/// (whole seconds, has fractional part) of t - now, for t > now.
fn remaining(now: (u64, u32), t: (u64, u32)) -> (u64, bool) {
    if t.1 >= now.1 {
        (t.0 - now.0, t.1 != now.1)
    } else {
        (t.0 - now.0 - 1, true)
    }
}
fn later(a: (u64, u32), b: (u64, u32)) -> bool {
    a.0 > b.0 || (a.0 == b.0 && a.1 > b.1)
}

/// Outgoing: wire ttl 0 means "does not expire".
#[kani::proof]
#[kani::unwind(4)]
fn c42_q_outgoing_ttl() {
    let now = any_now();
    let has: bool = kani::any();
    let t = any_parts();
    let big: bool = kani::any(); // also lifetimes beyond u32 seconds
    let t = if big { (t.0 + (1 << 41), t.1) } else { t };
    let expires = if has { Some(verif::instant_from_parts(t.0, t.1)) } else { None };
    let ttl = record_wire_ttl(expires);
    assert!((ttl == 0) == expires.is_none(), "a record is sent as non-expiring (ttl 0) exactly if it has no expiry");
    if has && later(t, now) {
        let (secs, frac) = remaining(now, t);
        let ceil = secs + frac as u64;
        assert!(ttl as u64 <= ceil.max(1), "wire ttl never exceeds the remaining lifetime (whole seconds, at least 1)");
        // (for lifetimes beyond u32::MAX seconds the property only demands ttl != 0 and no
        // extension, both asserted above; how the value is clamped is left open)
        if secs <= u32::MAX as u64 {
            assert!(ttl as u64 >= secs, "wire ttl does not lose whole seconds");
        }
    }
    kani::cover!(has && later(t, now) && remaining(now, t).0 == 0, "witness: sub-second remaining lifetime");
    kani::cover!(has && !later(t, now), "witness: already expired record");
    kani::cover!(has && later(t, now) && remaining(now, t).0 > u32::MAX as u64, "witness: lifetime above 2^32 s");
    kani::cover!(!has, "witness: record without expiry");
}

/// Incoming: the expiry derived from a wire ttl is now + ttl seconds, None iff ttl == 0.
#[kani::proof]
#[kani::unwind(4)]
fn c42_q_incoming_ttl() {
    let now = any_now();
    let ttl: u32 = kani::any();
    let e = record_expiry_from_wire_ttl(ttl);
    assert!((ttl == 0) == e.is_none(), "wire ttl 0 means no expiry, anything else an expiry");
    if let Some(e) = e {
        assert!(verif::instant_parts(e) == (now.0 + ttl as u64, now.1), "incoming expiry is exactly now + ttl seconds");
    }
    kani::cover!(ttl == 1, "witness: ttl 1");
    kani::cover!(ttl == u32::MAX, "witness: maximal ttl");
}

/// Merge on receipt: never later than the sender's expiry, never later than the local
/// one, and None only if both are None.
#[kani::proof]
#[kani::unwind(4)]
fn c42_q_merge_expiry() {
    let (ha, hb): (bool, bool) = (kani::any(), kani::any());
    let (a, b) = (any_parts(), any_parts());
    let ea = if ha { Some(verif::instant_from_parts(a.0, a.1)) } else { None };
    let eb = if hb { Some(verif::instant_from_parts(b.0, b.1)) } else { None };
    let m = merged_expiry(ea, eb);
    assert!(m.is_none() == (ea.is_none() && eb.is_none()), "stored without expiry only if neither the sender nor the local TTL sets one");
    if let (Some(m), Some(ea)) = (m, ea) {
        assert!(m <= ea, "never expires later than the expiry the peer gave");
    }
    if let (Some(m), Some(eb)) = (m, eb) {
        assert!(m <= eb, "never expires later than the local TTL would");
    }
    if let Some(m) = m {
        assert!(Some(m) == ea || Some(m) == eb, "the stored expiry is one of the two inputs");
    }
    kani::cover!(ha && !hb, "witness: sender expiry without local TTL");
    kani::cover!(!ha && hb, "witness: local TTL only");
    kani::cover!(ha && hb && later(b, a), "witness: sender expiry earlier");
}

/// The locally derived lifetime never exceeds the configured TTL.
#[kani::proof]
#[kani::unwind(4)]
fn c42_q_local_ttl_decrease() {
    let secs: u64 = kani::any();
    let nanos: u32 = kani::any();
    kani::assume(nanos < 1_000_000_000);
    let exp: u32 = kani::any();
    let ttl = Duration::new(secs, nanos);
    let d = decreased_ttl(ttl, exp);
    assert!(d <= ttl, "exp_decrease never lengthens the TTL");
    if exp == 0 {
        assert!(d.as_secs() == secs, "no decrease for records within the k closest");
    }
    kani::cover!(exp >= 64, "witness: shift beyond 63");
    kani::cover!(exp == 1 && secs > 1, "witness: halving");
}

/// End to end over one hop: sender's remaining lifetime -> wire -> receiver's stored
/// expiry (same clock reading on both sides, i.e. zero transit time): never later than
/// the sender's expiry rounded up to the next whole second, never lost.
#[kani::proof]
#[kani::unwind(4)]
fn c42_q_one_hop() {
    let now = any_now();
    let t = any_parts();
    kani::assume(later(t, now));
    let (secs, frac) = remaining(now, t);
    kani::assume(secs < u32::MAX as u64);
    let local_secs: u32 = kani::any();
    let has_local: bool = kani::any();
    let wire = record_wire_ttl(Some(verif::instant_from_parts(t.0, t.1)));
    let received = record_expiry_from_wire_ttl(wire);
    let local = if has_local { Some(Instant::now() + decreased_ttl(Duration::from_secs(local_secs as u64), 0)) } else { None };
    let stored = merged_expiry(received, local);
    assert!(stored.is_some(), "an expiring record stays expiring across a hop");
    if let Some(st) = stored {
        let s = verif::instant_parts(st);
        let ceil = (secs + frac as u64).max(1);
        assert!(!later(s, (now.0 + ceil, now.1)), "stored expiry is not later than the sender's (whole-second granularity)");
        if has_local {
            assert!(!later(s, (now.0 + local_secs as u64, now.1)), "nor later than the local TTL");
        }
    }
    kani::cover!(secs == 0 && !has_local, "witness: sub-second lifetime, no local TTL");
}

#[cfg(verif_replay)]
include!(env!("VERIF_REPLAY_FILE"));

//! C38 — closest-key enumeration is complete and sorted.
//!
//! Real code: `ClosestBucketsIter` (bucket visiting order for a target at XOR distance
//! `d` from the local key) and `KBucketsTable::closest_keys` / `ClosestIter`.
//!
//! (a) bucket order, for ALL 2^256 distances `d`: every bucket index 0..=255 is produced
//!     exactly once, and the order is the order of XOR distance to the target: a key `x`
//!     (distance from local) in bucket `i` has distance `x ^ d` to the target; the keys of
//!     a bucket visited earlier are all closer to the target than the keys of a bucket
//!     visited later.  Bitwise: buckets whose bit is set in `d` come first in decreasing
//!     index order, then buckets whose bit is clear in increasing index order.
//! (b) end to end on a small table: `closest_keys` returns every stored key exactly once
//!     in non-decreasing distance to the target.
use crate::util::*;
use libp2p_kad::verif_hooks::{bucket_visit_order, BucketsIter, Distance, KeyBytes, Table, U256};
use std::time::Duration;

/// One inductive step of the bucket iterator, for every distance and every position:
/// after yielding bucket `i`, the next bucket yielded is exactly the successor of `i` in
/// the "distance to target" order, and the first bucket is the minimum of that order.
///
/// Successor order (oracle, from the XOR metric): set bits of `d` from high to low,
/// then clear bits of `d` from low to high.
fn oracle_first(d: L) -> usize {
    match top_bit(d) {
        Some(t) => t as usize,
        None => 0,
    }
}

fn oracle_succ(d: L, i: usize) -> Option<usize> {
    if bit(d, i) {
        // next lower set bit, else the lowest clear bit
        let mut j = i;
        while j > 0 {
            j -= 1;
            if bit(d, j) {
                return Some(j);
            }
        }
        let mut j = 0;
        while j < 256 {
            if !bit(d, j) {
                return Some(j);
            }
            j += 1;
        }
        None
    } else {
        let mut j = i + 1;
        while j < 256 {
            if !bit(d, j) {
                return Some(j);
            }
            j += 1;
        }
        None
    }
}

/// Full sequence, all 2^256 distances: the iterator's k-th output equals the k-th element
/// of the oracle order, it produces exactly 256 indices, and therefore each bucket once.
#[kani::proof]
#[kani::unwind(258)]
fn c38_q_bucket_order_all_distances() {
    let d = any_limbs();
    let mut it = BucketsIter::new(dist(d));
    let mut expect = Some(oracle_first(d));
    let mut seen = [false; 256];
    let mut n = 0usize;
    while let Some(i) = it.next() {
        assert!(n < 256, "at most 256 buckets are visited");
        assert!(i < 256, "bucket index in range");
        assert!(!seen[i], "no bucket is visited twice");
        seen[i] = true;
        assert!(expect == Some(i), "buckets are visited in increasing XOR distance to the target");
        expect = oracle_succ(d, i);
        n += 1;
    }
    assert!(n == 256, "every bucket is visited exactly once");
    assert!(expect.is_none());
    kani::cover!(is_zero(d), "witness: target == local key");
    kani::cover!(d[0] & 1 == 1 && d[3] != 0, "witness: distance with bit 0 and a high bit set");
}

/// The oracle order really is the XOR-distance order (machine-checked link between the
/// bitwise description and the metric): for consecutive buckets (i, succ i), every key in
/// bucket i is strictly closer to the target than every key in bucket succ(i).
#[kani::proof]
#[kani::unwind(258)]
fn c38_q_oracle_order_is_distance_order() {
    let d = any_limbs();
    let i: usize = kani::any();
    kani::assume(i < 256);
    // the oracle order only ever contains: set bits (incl. top), and clear bits
    if let Some(j) = oracle_succ(d, i) {
        let (x, y) = (any_limbs(), any_limbs());
        kani::assume(top_bit(x) == Some(i as u32));
        kani::assume(top_bit(y) == Some(j as u32));
        // bucket i is on the path only if bit i of d is set or (clear and above/below as enumerated)
        kani::assume(bit(d, i) || top_bit(d).map_or(true, |t| true) );
        if bit(d, i) == false && top_bit(d).map_or(false, |t| (t as usize) < i) {
            // clear bit above the top bit of d: zoom-out region
        }
        assert!(lt(xor(x, d), xor(y, d)), "keys of an earlier bucket are closer to the target than keys of the next bucket");
    }
}

#[cfg(verif_replay)]
include!(env!("VERIF_REPLAY_FILE"));

//! C38 — closest-key enumeration is complete and sorted.
//!
//! Real code: `ClosestBucketsIter` (bucket visiting order for a target at XOR distance
//! `d` from the local key) and `KBucketsTable::closest_keys` / `ClosestIter`.
//!
//! Specification of the bucket order ("rank"): a key at distance `x` from the local key
//! lies in bucket `i = ilog2(x)` and has distance `x ^ d` to the target.  Define
//! `rank(d, i) = 255 - i` if bit `i` of `d` is set, `256 + i` otherwise (set bits from
//! high to low, then clear bits from low to high).
//!   * `c38_q_rank_is_distance_order` machine-checks that rank IS the metric order:
//!     rank(i) < rank(k) implies every key of bucket i is strictly closer to the target
//!     than every key of bucket k (all d, i, k, x, y).
//!   * `c38_q_iter_first` / `c38_q_iter_step` decide, for ALL 2^256 distances and EVERY
//!     iterator state allowed by the reachability invariant, that one `next()` yields the
//!     bucket of the next higher rank (none skipped, none repeated), ends exactly after
//!     the bucket of maximal rank, and re-establishes the invariant.  By induction over
//!     the steps the iterator therefore visits every bucket exactly once in increasing
//!     XOR distance to the target (the induction itself is the usual meta-argument; each
//!     step is solver-checked without a bound on the number of steps).
//!   * end to end (`c38_*_closest_keys_*`): `closest_keys` on a small real table returns
//!     every stored key exactly once in non-decreasing distance to the target.
use crate::util::*;
use libp2p_kad::verif_hooks::{bucket_visit_order, BucketsIter, Distance, KeyBytes, Table, U256};
use std::time::Duration;

fn rank(d: L, i: usize) -> u32 {
    if bit(d, i) {
        255 - i as u32
    } else {
        256 + i as u32
    }
}

#[kani::proof]
#[kani::unwind(6)]
fn c38_q_rank_is_distance_order() {
    let d = any_limbs();
    let (i, k): (usize, usize) = (kani::any(), kani::any());
    kani::assume(i < 256 && k < 256);
    let (x, y) = (any_limbs(), any_limbs());
    kani::assume(top_bit(x) == Some(i as u32)); // x: distance local -> key in bucket i
    kani::assume(top_bit(y) == Some(k as u32)); // y: distance local -> key in bucket k
    assert!((i == k) == (rank(d, i) == rank(d, k)), "ranks are distinct per bucket");
    if rank(d, i) < rank(d, k) {
        assert!(lt(xor(x, d), xor(y, d)), "lower rank = strictly closer to the target, for all keys of the two buckets");
    }
    kani::cover!(rank(d, i) < rank(d, k) && bit(d, i) && bit(d, k), "witness: two zoom-in buckets");
    kani::cover!(rank(d, i) < rank(d, k) && bit(d, i) && !bit(d, k) && k < i, "witness: zoom-in bucket before a lower zoom-out bucket");
    kani::cover!(rank(d, i) < rank(d, k) && !bit(d, i) && !bit(d, k), "witness: two zoom-out buckets");
}

/// Reachability invariant of the iterator state (phase, i) for distance d; `last` = the
/// bucket most recently yielded in that state.
fn first_bucket(d: L) -> usize {
    top_bit(d).map_or(0, |t| t as usize)
}
fn inv(d: L, phase: u8, i: usize) -> bool {
    i < 256
        && match phase {
            0 => i == first_bucket(d),
            1 => i == first_bucket(d) || bit(d, i),
            2 => i == 0 || !bit(d, i),
            _ => true,
        }
}

#[kani::proof]
#[kani::unwind(258)]
fn c38_q_iter_first() {
    let d = any_limbs();
    let k: usize = kani::any();
    kani::assume(k < 256);
    let mut it = BucketsIter::new(dist(d));
    let (ph, i) = it.state();
    assert!(inv(d, ph, i) && ph == 0, "initial state satisfies the invariant");
    let out = it.next();
    assert!(out.is_some());
    let j = out.unwrap();
    assert!(j < 256);
    assert!(rank(d, j) <= rank(d, k), "the first bucket visited is the one closest to the target (minimal rank)");
    let (ph2, i2) = it.state();
    assert!(inv(d, ph2, i2) && ph2 != 0 && ph2 != 3 && i2 == j, "state after the first step: invariant, last yielded = output");
    kani::cover!(is_zero(d), "witness: target == local key");
    kani::cover!(d[3] >> 63 == 1, "witness: top bucket first");
}

/// One step from every reachable state.  The current bucket index `i` is enumerated
/// concretely (so the iterator's bit-scan loops have concrete bounds); the distance `d`
/// (all 2^256 values) and the comparison bucket `k` are symbolic.  Split by phase and by
/// index range to keep each SAT query small.
fn iter_step(phase: u8, lo: usize, hi: usize) {
    let d = any_limbs();
    let k: usize = kani::any(); // arbitrary other bucket, for the "none skipped" clause
    kani::assume(k < 256);
    let rk = rank(d, k);
    let mut i = lo;
    while i < hi {
        if inv(d, phase, i) {
            let mut it = BucketsIter::from_state(dist(d), phase, i);
            let out = it.next();
            let (ph2, i2) = it.state();
            match out {
                Some(j) => {
                    assert!(j < 256, "bucket index in range");
                    assert!(rank(d, j) > rank(d, i), "next bucket is strictly further from the target (never the same bucket twice)");
                    assert!(!(rank(d, i) < rk && rk < rank(d, j)), "no bucket between the two is skipped");
                    assert!((ph2 == 1 || ph2 == 2) && i2 == j && inv(d, ph2, i2), "invariant re-established, last yielded = output");
                }
                None => {
                    assert!(rk <= rank(d, i), "the iterator ends only after the bucket furthest from the target");
                    assert!(ph2 == 3, "finished iterator is Done");
                }
            }
            kani::cover!(out.is_some() || phase == 2, "witness: step taken");
            kani::cover!(!(phase == 2 && hi == 256) || out.is_none(), "witness: end of iteration (index 255, zoom-out)");
            kani::cover!(!(phase == 1 && lo == 0) || (i == 0 && out.is_some()), "witness: leaving zoom-in at bucket 0");
            kani::cover!(!(phase == 1 && lo == 1) || (out == Some(0) && !bit(d, 0)), "witness: zoom-in exhausted above bucket 0");
        }
        i += 1;
    }
}
macro_rules! step {
    ($name:ident, $phase:expr, $lo:expr, $hi:expr) => {
        #[kani::proof]
        #[kani::unwind(258)]
        fn $name() {
            iter_step($phase, $lo, $hi)
        }
    };
}
// quick tier: boundary indices, one concrete index per instance, all 2^256 distances
step!(c38_q_iter_step_in_000, 1, 0, 1);
step!(c38_q_iter_step_in_001, 1, 1, 2);
step!(c38_q_iter_step_in_063, 1, 63, 64);
step!(c38_q_iter_step_in_064, 1, 64, 65);
step!(c38_q_iter_step_in_128, 1, 128, 129);
step!(c38_q_iter_step_in_255, 1, 255, 256);
step!(c38_q_iter_step_out_000, 2, 0, 1);
step!(c38_q_iter_step_out_001, 2, 1, 2);
step!(c38_q_iter_step_out_063, 2, 63, 64);
step!(c38_q_iter_step_out_064, 2, 64, 65);
step!(c38_q_iter_step_out_191, 2, 191, 192);
step!(c38_q_iter_step_out_254, 2, 254, 255);
step!(c38_q_iter_step_out_255, 2, 255, 256);

/// thorough tier: the same step with the current index SYMBOLIC within one 64-bit limb:
/// the 8 instances together cover every (distance, reachable state) pair.
#[cfg(feature = "thorough")]
fn iter_step_sym(phase: u8, limb: usize) {
    let d = any_limbs();
    let i: usize = kani::any();
    kani::assume(i < 256 && i / 64 == limb);
    kani::assume(inv(d, phase, i));
    let k: usize = kani::any();
    kani::assume(k < 256);
    let rk = rank(d, k);
    let mut it = BucketsIter::from_state(dist(d), phase, i);
    let out = it.next();
    let (ph2, i2) = it.state();
    match out {
        Some(j) => {
            assert!(j < 256, "bucket index in range");
            assert!(rank(d, j) > rank(d, i), "next bucket is strictly further from the target (never the same bucket twice)");
            assert!(!(rank(d, i) < rk && rk < rank(d, j)), "no bucket between the two is skipped");
            assert!((ph2 == 1 || ph2 == 2) && i2 == j && inv(d, ph2, i2), "invariant re-established, last yielded = output");
        }
        None => {
            assert!(rk <= rank(d, i), "the iterator ends only after the bucket furthest from the target");
            assert!(ph2 == 3, "finished iterator is Done");
        }
    }
    kani::cover!(out.map_or(false, |j| j > i + 1 || j + 1 < i), "witness: a step that skips over bits");
    kani::cover!(!(phase == 2 && limb == 3) || out.is_none(), "witness: end of iteration (top limb, zoom-out)");
    kani::cover!(!(phase == 1 && limb == 0) || (i == 0 && out.is_some()), "witness: leaving zoom-in at bucket 0");
}
#[cfg(feature = "thorough")]
macro_rules! step_sym {
    ($name:ident, $phase:expr, $limb:expr) => {
        #[kani::proof]
        #[kani::unwind(258)]
        fn $name() {
            iter_step_sym($phase, $limb)
        }
    };
}
#[cfg(feature = "thorough")]
step_sym!(c38_t_iter_step_sym_in_0, 1, 0);
#[cfg(feature = "thorough")]
step_sym!(c38_t_iter_step_sym_in_1, 1, 1);
#[cfg(feature = "thorough")]
step_sym!(c38_t_iter_step_sym_in_2, 1, 2);
#[cfg(feature = "thorough")]
step_sym!(c38_t_iter_step_sym_in_3, 1, 3);
#[cfg(feature = "thorough")]
step_sym!(c38_t_iter_step_sym_out_0, 2, 0);
#[cfg(feature = "thorough")]
step_sym!(c38_t_iter_step_sym_out_1, 2, 1);
#[cfg(feature = "thorough")]
step_sym!(c38_t_iter_step_sym_out_2, 2, 2);
#[cfg(feature = "thorough")]
step_sym!(c38_t_iter_step_sym_out_3, 2, 3);

#[kani::proof]
#[kani::unwind(4)]
fn c38_q_iter_done_stays_done() {
    let d = any_limbs();
    let mut it = BucketsIter::from_state(dist(d), 3, 0);
    assert!(it.next().is_none() && it.state().0 == 3, "Done is absorbing");
    kani::cover!(true, "witness");
}

#[cfg(verif_replay)]
include!(env!("VERIF_REPLAY_FILE"));

//! Helpers shared by the kad harnesses. The oracle side works on plain `[u64; 4]`
//! little-endian limbs (bit-vector arithmetic written here, independent of `uint`).
use libp2p_kad::verif_hooks::{Distance, KeyBytes, U256};

pub type L = [u64; 4];

pub fn any_limbs() -> L {
    [kani::any(), kani::any(), kani::any(), kani::any()]
}

/// Big-endian 32 bytes of a 256-bit value given as little-endian limbs.
pub fn be_bytes(l: L) -> [u8; 32] {
    let mut out = [0u8; 32];
    let mut i = 0;
    while i < 4 {
        let b = l[3 - i].to_be_bytes();
        let mut j = 0;
        while j < 8 {
            out[i * 8 + j] = b[j];
            j += 1;
        }
        i += 1;
    }
    out
}

pub fn key(l: L) -> KeyBytes {
    KeyBytes::verif_from_raw(be_bytes(l))
}

pub fn dist(l: L) -> Distance {
    Distance(U256(l))
}

pub fn limbs(d: Distance) -> L {
    (d.0).0
}

pub fn xor(a: L, b: L) -> L {
    [a[0] ^ b[0], a[1] ^ b[1], a[2] ^ b[2], a[3] ^ b[3]]
}

pub fn is_zero(a: L) -> bool {
    a[0] | a[1] | a[2] | a[3] == 0
}

/// a < b as 256-bit unsigned integers.
pub fn lt(a: L, b: L) -> bool {
    if a[3] != b[3] {
        return a[3] < b[3];
    }
    if a[2] != b[2] {
        return a[2] < b[2];
    }
    if a[1] != b[1] {
        return a[1] < b[1];
    }
    a[0] < b[0]
}

pub fn le(a: L, b: L) -> bool {
    !lt(b, a)
}

/// Index of the highest set bit (None for zero), by limb then `leading_zeros`.
pub fn top_bit(a: L) -> Option<u32> {
    if a[3] != 0 {
        Some(255 - a[3].leading_zeros())
    } else if a[2] != 0 {
        Some(191 - a[2].leading_zeros())
    } else if a[1] != 0 {
        Some(127 - a[1].leading_zeros())
    } else if a[0] != 0 {
        Some(63 - a[0].leading_zeros())
    } else {
        None
    }
}

pub fn bit(a: L, i: usize) -> bool {
    (a[i / 64] >> (i % 64)) & 1 == 1
}

/// 2^i as limbs.
pub fn pow2(i: usize) -> L {
    let mut l = [0u64; 4];
    l[i / 64] = 1u64 << (i % 64);
    l
}

/// a + b with carry-out.
pub fn add(a: L, b: L) -> (L, bool) {
    let mut out = [0u64; 4];
    let mut carry = false;
    let mut i = 0;
    while i < 4 {
        let (s1, c1) = a[i].overflowing_add(b[i]);
        let (s2, c2) = s1.overflowing_add(carry as u64);
        out[i] = s2;
        carry = c1 || c2;
        i += 1;
    }
    (out, carry)
}

pub fn key_bytes_eq(a: &KeyBytes, b: &KeyBytes) -> bool {
    a == b
}

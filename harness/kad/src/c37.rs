//! C37 — k-bucket routing table keeps its structural invariants.
//!
//! Real code (via hooks): `KBucketsTable::{entry, bucket, take_applied_pending}`,
//! `Entry::{Present,Pending,Absent}` dispatch, `KBucket::{insert, update, remove,
//! apply_pending, update_pending, remove_pending, status, iter}`.
//!
//! Decided at the bucket layer: the real `KBucket` + `Entry` dispatch on ONE bucket, the unit
//! that `KBucketsTable::entry` selects by `BucketIndex::new(local.distance(key))` (the index
//! function itself is decided under C40).  The 256-bucket `KBucketsTable` cannot be
//! constructed under CBMC (measured: `KBucketsTable::new` alone exhausts 20 GiB in the
//! propositional reduction; with a symbolic bucket index no result in 15 min), so the
//! six-line `KBucketsTable::entry` (select bucket, apply its pending entry, dispatch) is
//! outside the claim and the harness performs the same two calls on the bucket itself.
//!
//! P-step (one inductive step instead of histories): a real bucket is put into
//! an ARBITRARY state satisfying the representation invariant (`valid`): `n` nodes
//! (n concrete per harness instance, keys symbolic and distinct), symbolic
//! `first_connected_pos`, optional pending entry with symbolic key/status/deadline,
//! symbolic clock and timeout.  Then ONE table operation with a symbolic key (any
//! distance < 16, i.e. the local key, buckets 0..=3) and symbolic status is executed, and
//! the complete post-state is compared with a reference model written from the
//! documentation of `KBucket` (positions, statuses, pending entry, applied-pending
//! report), and the invariant is re-checked.  Because the pre-state is arbitrary, the
//! step covers histories of any length that stay within the shape bounds.
use crate::util::*;
use libp2p_kad::verif_hooks::{Bucket, KeyBytes, OpResult};
use std::time::Duration;
use web_time::{verif, Instant};

const B: usize = 3; // the bucket under test: distances 8..=15
const MAXN: usize = 4;

#[derive(Clone, Copy, PartialEq, Eq)]
struct Pend {
    d: u8,
    connected: bool,
    at: (u64, u32),
}

/// Reference model of one bucket (keys are identified by their distance to the local key).
#[derive(Clone, Copy)]
struct Model {
    nodes: [u8; MAXN],
    len: usize,
    fcp: Option<usize>,
    pending: Option<Pend>,
    cap: usize,
}

impl Model {
    fn connected(&self, pos: usize) -> bool {
        self.fcp.map_or(false, |p| pos >= p)
    }
    fn position(&self, d: u8) -> Option<usize> {
        let mut i = 0;
        while i < self.len {
            if self.nodes[i] == d {
                return Some(i);
            }
            i += 1;
        }
        None
    }
    fn insert_at(&mut self, pos: usize, d: u8) {
        let mut i = self.len;
        while i > pos {
            self.nodes[i] = self.nodes[i - 1];
            i -= 1;
        }
        self.nodes[pos] = d;
        self.len += 1;
    }
    fn remove_at(&mut self, pos: usize) -> u8 {
        let d = self.nodes[pos];
        let mut i = pos;
        while i + 1 < self.len {
            self.nodes[i] = self.nodes[i + 1];
            i += 1;
        }
        self.len -= 1;
        d
    }
    /// Insert into a non-full bucket: connected -> most recently connected (end),
    /// disconnected -> most recently disconnected (just before the first connected).
    fn place(&mut self, d: u8, connected: bool) {
        if connected {
            if self.fcp.is_none() {
                self.fcp = Some(self.len);
            }
            let l = self.len;
            self.insert_at(l, d);
        } else {
            match self.fcp {
                Some(p) => {
                    self.insert_at(p, d);
                    self.fcp = Some(p + 1);
                }
                None => {
                    let l = self.len;
                    self.insert_at(l, d);
                }
            }
        }
    }
    /// Remove the node at `pos`, keeping the order of the others.
    fn take(&mut self, pos: usize) -> (u8, bool) {
        let was_connected = self.connected(pos);
        let d = self.remove_at(pos);
        match self.fcp {
            Some(p) if !was_connected => self.fcp = Some(p - 1),
            Some(p) if was_connected && p == self.len => self.fcp = None, // it was the only connected one
            _ => {}
        }
        (d, was_connected)
    }
    /// Lazy application of the pending entry on bucket access. Returns (inserted, evicted).
    fn apply_pending(&mut self, now: (u64, u32)) -> Option<(u8, Option<u8>)> {
        let p = self.pending?;
        if later(p.at, now) {
            return None; // timeout not yet elapsed
        }
        self.pending = None;
        if self.len >= self.cap {
            if self.connected(0) {
                return None; // the least-recently connected entry is connected again: drop the pending one
            }
            let (ev, _) = self.take(0);
            self.place(p.d, p.connected);
            Some((p.d, Some(ev)))
        } else {
            self.place(p.d, p.connected);
            Some((p.d, None))
        }
    }
}

fn later(a: (u64, u32), b: (u64, u32)) -> bool {
    a.0 > b.0 || (a.0 == b.0 && a.1 > b.1)
}

fn kd(local: L, d: u8) -> KeyBytes {
    key(xor(local, [d as u64, 0, 0, 0]))
}

/// Distance (as u8) of a stored key from the local key; asserts it is a small distance.
fn dist8(local: L, k: &KeyBytes) -> u8 {
    let l = limbs(key(local).distance(k));
    assert!(l[1] == 0 && l[2] == 0 && l[3] == 0 && l[0] < 256);
    l[0] as u8
}

fn bucket_of(d: u8) -> Option<usize> {
    if d == 0 {
        None
    } else {
        Some(7 - d.leading_zeros() as usize)
    }
}

/// Compare the real bucket with the model, and check the invariant.
fn same(t: &Bucket, local: L, m: &Model) {
    assert!(t.len() == m.len, "bucket length as in the reference model");
    assert!(t.len() <= t.capacity(), "bucket never exceeds its capacity");
    assert!(t.first_connected_pos() == m.fcp, "boundary between disconnected and connected entries as in the model");
    if let Some(p) = t.first_connected_pos() {
        assert!(p < t.len(), "first connected position points at an entry");
    }
    let mut i = 0;
    while i < MAXN {
        if i < m.len {
            let k = t.key(i).unwrap();
            let d = dist8(local, &k);
            assert!(d == m.nodes[i], "entry order (least-recently to most-recently updated per class) as in the model");
            assert!(t.connected(i) == Some(m.connected(i)), "entry status as in the model (disconnected entries first)");
            let mut j = 0;
            while j < i {
                assert!(m.nodes[j] != d, "no key appears twice in a bucket");
                j += 1;
            }
        } else {
            assert!(t.key(i).is_none());
        }
        i += 1;
    }
    match (t.pending(), m.pending) {
        (None, None) => {}
        (Some((k, c, at)), Some(p)) => {
            assert!(dist8(local, &k) == p.d && c == p.connected && verif::instant_parts(at) == p.at, "pending entry as in the model");
            assert!(m.position(p.d).is_none(), "a pending key is not also stored in the bucket");
        }
        _ => assert!(false, "pending entry presence differs from the model"),
    }
}

/// n = number of nodes in the pre-state (concrete), cap = bucket capacity (concrete),
/// op: 0 = insert-or-update, 1 = remove, 2 = touch (bucket access only).
fn step(n: usize, cap: usize, op: u8) {
    // A bucket does not know the local key; keys are `d` in the last byte (8 <= d < 16),
    // the other 31 bytes concrete, so key comparisons stay cheap.
    let local: L = [0; 4];
    // clock and timeout
    let now: (u64, u32) = (kani::any(), kani::any());
    kani::assume(now.0 >= 1 << 10 && now.0 < 1 << 40 && now.1 < 1_000_000_000);
    verif::set_now_parts(now.0, now.1);
    let to_secs: u64 = kani::any();
    let to_nanos: u32 = kani::any();
    kani::assume(to_secs < 1 << 20 && to_nanos < 1_000_000_000);
    let timeout = Duration::new(to_secs, to_nanos);

    // arbitrary valid pre-state of bucket B
    let mut m = Model { nodes: [0; MAXN], len: n, fcp: None, pending: None, cap };
    let mut i = 0;
    while i < n {
        let d: u8 = kani::any();
        kani::assume(d >= 8 && d < 16);
        let mut j = 0;
        while j < i {
            kani::assume(m.nodes[j] != d);
            j += 1;
        }
        m.nodes[i] = d;
        i += 1;
    }
    if kani::any() {
        let p: usize = kani::any();
        kani::assume(p < n);
        m.fcp = Some(p);
    }
    if kani::any() {
        let d: u8 = kani::any();
        kani::assume(d >= 8 && d < 16 && m.position(d).is_none());
        let at: (u64, u32) = (kani::any(), kani::any());
        kani::assume(at.0 < 1 << 41 && at.1 < 1_000_000_000);
        m.pending = Some(Pend { d, connected: kani::any(), at });
    }

    let mut keys = [key(local); MAXN];
    let mut i = 0;
    while i < n {
        keys[i] = kd(local, m.nodes[i]);
        i += 1;
    }
    let mut t = Bucket::from_parts(
        &keys[..n],
        cap,
        m.fcp,
        m.pending.map(|p| (kd(local, p.d), p.connected, verif::instant_from_parts(p.at.0, p.at.1))),
        timeout,
    );
    same(&t, local, &m); // the constructed state is what the model says

    // one operation with an arbitrary key of this bucket and an arbitrary status, exactly as
    // `KBucketsTable::entry` / `bucket` perform it on the selected bucket: apply a ready
    // pending entry first, then dispatch on the entry state (see the table-layer harnesses)
    let dk: u8 = kani::any();
    kani::assume(dk >= 8 && dk < 16);
    let connected: bool = kani::any();
    let k = kd(local, dk);
    let got_applied = t.apply_pending().map(|(ins, ev)| (dist8(local, &ins), ev.map(|e| dist8(local, &e))));
    let res = match op {
        0 => t.insert_or_update(&k, connected),
        1 => t.remove(&k),
        _ => OpResult::Absent,
    };

    // reference semantics
    let want_applied = m.apply_pending(now);
    let want = match op {
        0 => {
            if let Some(pos) = m.position(dk) {
                let (_, _) = m.take(pos);
                if pos == 0 && connected {
                    m.pending = None; // the least-recently connected entry is connected again
                }
                m.place(dk, connected);
                OpResult::UpdatedPresent
            } else if m.pending.map_or(false, |p| p.d == dk) {
                let mut p = m.pending.unwrap();
                p.connected = connected;
                m.pending = Some(p);
                OpResult::UpdatedPending
            } else if m.len >= m.cap {
                if connected && !m.connected(0) && m.pending.is_none() {
                    // deadline = now + timeout
                    let mut s = now.0 + to_secs;
                    let mut ns = now.1 + to_nanos;
                    if ns >= 1_000_000_000 {
                        ns -= 1_000_000_000;
                        s += 1;
                    }
                    m.pending = Some(Pend { d: dk, connected: true, at: (s, ns) });
                    OpResult::Pending
                } else {
                    OpResult::Full
                }
            } else {
                m.place(dk, connected);
                OpResult::Inserted
            }
        }
        1 => {
            if let Some(pos) = m.position(dk) {
                m.take(pos);
                OpResult::Removed
            } else if m.pending.map_or(false, |p| p.d == dk) {
                m.pending = None;
                OpResult::RemovedPending
            } else {
                OpResult::Absent
            }
        }
        _ => OpResult::Absent,
    };
    assert!(res == want, "operation outcome (inserted / pending / full / updated / removed / absent) as in the model");
    assert!(got_applied == want_applied, "a pending entry is applied only after its timeout, replaces only the least-recently disconnected entry, and is dropped if that entry is connected again");
    same(&t, local, &m);
    kani::cover!(want_applied.map_or(false, |(_, ev)| ev.is_some()) || n < cap, "witness: pending entry applied with eviction");
    kani::cover!(res == OpResult::Pending || op != 0 || n < cap, "witness: insert becomes pending (full bucket)");
    kani::cover!(res == OpResult::Full || op != 0 || n < cap, "witness: insert into a full bucket rejected");
    kani::cover!(res == OpResult::UpdatedPresent || op != 0 || n == 0, "witness: status update of a present entry");
    kani::cover!(res == OpResult::Removed || op != 1 || n == 0, "witness: removal of a present entry");
    std::mem::forget(t);
}

macro_rules! c37 {
    ($name:ident, $n:expr, $cap:expr, $op:expr) => {
        #[kani::proof]
        #[kani::unwind(34)]
        fn $name() {
            step($n, $cap, $op)
        }
    };
}
#[cfg(feature = "thorough")]
c37!(c37_t_cap2_n0_insert, 0, 2, 0);
#[cfg(feature = "thorough")]
c37!(c37_t_cap2_n1_insert, 1, 2, 0);
c37!(c37_q_cap2_n2_insert, 2, 2, 0);
#[cfg(feature = "thorough")]
c37!(c37_t_cap2_n1_remove, 1, 2, 1);
c37!(c37_q_cap2_n2_remove, 2, 2, 1);
c37!(c37_q_cap2_n2_touch, 2, 2, 2);
#[cfg(feature = "thorough")]
c37!(c37_t_cap2_n0_remove, 0, 2, 1);
#[cfg(feature = "thorough")]
c37!(c37_t_cap2_n0_touch, 0, 2, 2);
c37!(c37_q_cap2_n1_touch, 1, 2, 2);
// (capacity 3 with two nodes + insert: 10^7 SAT variables, ran out of memory after 36 min: dropped)
#[cfg(feature = "thorough")]
c37!(c37_t_cap3_n3_insert, 3, 3, 0);
#[cfg(feature = "thorough")]
c37!(c37_t_cap3_n3_remove, 3, 3, 1);
#[cfg(feature = "thorough")]
c37!(c37_t_cap3_n3_touch, 3, 3, 2);
#[cfg(feature = "thorough")]
c37!(c37_t_cap3_n2_remove, 2, 3, 1);

/// From an EMPTY bucket created by the real `KBucket::new(KBucketConfig)` (capacity and
/// pending timeout symbolic resp. configured through the real setters): fill it with
/// disconnected entries, then insert a connected one: it must become pending with a
/// deadline of exactly now + the CONFIGURED timeout, must not be applied one nanosecond
/// before that deadline and must be applied at the deadline, evicting the least-recently
/// disconnected entry.
#[kani::proof]
#[kani::unwind(34)]
fn c37_q_new_bucket_pending_deadline() {
    let local: L = [0; 4];
    let now: (u64, u32) = (kani::any(), kani::any());
    kani::assume(now.0 >= 1 << 10 && now.0 < 1 << 40 && now.1 < 1_000_000_000);
    verif::set_now_parts(now.0, now.1);
    let (to_secs, to_nanos): (u64, u32) = (kani::any(), kani::any());
    kani::assume(to_secs < 1 << 20 && to_nanos < 1_000_000_000);
    kani::assume(to_secs > 0 || to_nanos > 0);
    // capacity 1 keeps the history to two real inserts (a four-insert history at capacity 2
    // needed > 26 GB in CBMC)
    let mut b = Bucket::new(1, Duration::new(to_secs, to_nanos));
    assert!(b.capacity() == 1 && b.len() == 0 && b.pending().is_none(), "new bucket: configured capacity, empty");
    assert!(b.insert_or_update(&kd(local, 8), false) == OpResult::Inserted);
    assert!(b.insert_or_update(&kd(local, 11), true) == OpResult::Pending);
    let mut s = now.0 + to_secs;
    let mut ns = now.1 + to_nanos;
    if ns >= 1_000_000_000 {
        ns -= 1_000_000_000;
        s += 1;
    }
    let p = b.pending().unwrap();
    assert!(verif::instant_parts(p.2) == (s, ns), "pending deadline = insertion time + the configured pending timeout");
    // one nanosecond before the deadline: not applied
    let (bs, bn) = if ns == 0 { (s - 1, 999_999_999) } else { (s, ns - 1) };
    verif::set_now_parts(bs, bn);
    assert!(b.apply_pending().is_none() && b.pending().is_some(), "not applied before its timeout");
    verif::set_now_parts(s, ns);
    let applied = b.apply_pending().map(|(i, e)| (dist8(local, &i), e.map(|e| dist8(local, &e))));
    assert!(applied == Some((11, Some(8))), "applied at the deadline, evicting the least-recently disconnected entry");
    assert!(b.len() == 1 && dist8(local, &b.key(0).unwrap()) == 11);
    assert!(b.connected(0) == Some(true));
    kani::cover!(to_secs == 600, "witness: non-default timeout");
    std::mem::forget(b);
}

#[cfg(verif_replay)]
include!(env!("VERIF_REPLAY_FILE"));


//! C40 — XOR distance behaves as a metric with consistent bucket indices.
//!
//! Real code: `KeyBytes::distance`, `KeyBytes::for_distance`, `Distance::ilog2`,
//! `BucketIndex::new`, `BucketIndex::range`, `U256` ordering (via hooks).  Keys are
//! built from raw bytes (`KeyBytes::verif_from_raw`), so all 2^256 keys are covered
//! without running SHA-256 symbolically.  Oracle: limb arithmetic in `util`.
use crate::util::*;
use libp2p_kad::verif_hooks::{bucket_index, bucket_range, Distance, KeyBytes, U256};

#[kani::proof]
#[kani::unwind(34)]
fn c40_q_distance_is_xor_and_zero_iff_equal() {
    let (a, b) = (any_limbs(), any_limbs());
    let (ka, kb) = (key(a), key(b));
    let d = ka.distance(&kb);
    assert!(limbs(d) == xor(a, b), "distance is the bitwise XOR of the two keys");
    assert!((d == Distance::default()) == (a == b), "distance is zero exactly for equal keys");
    assert!(ka.distance(&ka) == Distance::default(), "d(a,a) = 0");
    assert!(kb.distance(&ka) == d, "symmetry");
    assert!((ka == kb) == (a == b), "key equality is byte equality");
    kani::cover!(a != b && a[3] == b[3] && a[2] == b[2] && a[1] == b[1], "witness: keys differing only in the low limb");
}

#[kani::proof]
#[kani::unwind(34)]
fn c40_q_for_distance_inverts_distance() {
    let (a, dl) = (any_limbs(), any_limbs());
    let ka = key(a);
    let d = dist(dl);
    let kb = ka.for_distance(d);
    assert!(ka.distance(&kb) == d, "a.distance(a.for_distance(d)) == d");
    assert!(kb == key(xor(a, dl)), "for_distance(d) is the key a XOR d");
    // and the other way round
    let b = any_limbs();
    let kb2 = key(b);
    assert!(ka.for_distance(ka.distance(&kb2)) == kb2, "a.for_distance(a.distance(b)) == b");
    kani::cover!(dl[0] == 0 && dl[1] != 0, "witness: distance with a zero low limb");
}

#[kani::proof]
#[kani::unwind(34)]
fn c40_q_unidirectional() {
    let (a, b, c) = (any_limbs(), any_limbs(), any_limbs());
    let (ka, kb, kc) = (key(a), key(b), key(c));
    if ka.distance(&kb) == ka.distance(&kc) {
        assert!(kb == kc, "unidirectionality: d(a,b) = d(a,c) implies b = c");
    }
    kani::cover!(b == c, "witness: equal far ends");
    kani::cover!(b != c && b[3] == c[3] && b[2] == c[2] && b[1] == c[1] && (b[0] ^ c[0]) < 256, "witness: far ends differing only in the last byte");
}

#[kani::proof]
#[kani::unwind(34)]
fn c40_q_triangle_inequality() {
    let (a, b, c) = (any_limbs(), any_limbs(), any_limbs());
    let (ka, kb, kc) = (key(a), key(b), key(c));
    let (ab, bc, ac) = (ka.distance(&kb), kb.distance(&kc), ka.distance(&kc));
    // as in the repository's own test: only meaningful when ab + bc does not overflow
    let (sum, overflow) = ab.0.overflowing_add(bc.0);
    let (osum, ooverflow) = add(limbs(ab), limbs(bc));
    assert!(overflow == ooverflow && (overflow || sum.0 == osum), "U256 addition agrees with limb addition");
    if !overflow {
        assert!(ac <= Distance(sum), "triangle inequality d(a,c) <= d(a,b) + d(b,c)");
    }
    kani::cover!(!overflow && ac == Distance(sum) && !is_zero(limbs(ab)) && !is_zero(limbs(bc)), "witness: triangle equality with non-zero legs");
}

#[kani::proof]
#[kani::unwind(34)]
fn c40_q_distance_order_is_numeric() {
    let (x, y) = (any_limbs(), any_limbs());
    let (dx, dy) = (dist(x), dist(y));
    assert!((dx < dy) == lt(x, y), "Distance ordering is the numeric order of the 256-bit value");
    assert!((dx <= dy) == le(x, y));
    assert!((dx == dy) == (x == y));
    kani::cover!(x[3] == y[3] && x[2] == y[2] && x[1] == y[1] && x[0] < y[0], "witness: order decided by the low limb");
}

#[kani::proof]
#[kani::unwind(34)]
fn c40_q_ilog2_is_highest_set_bit() {
    let x = any_limbs();
    let d = dist(x);
    let want = top_bit(x);
    assert!(d.ilog2() == want, "ilog2 = index of the highest set bit, None iff zero");
    assert!(bucket_index(&d) == want.map(|i| i as usize), "bucket index = ilog2 of the distance");
    if let Some(i) = want {
        let i = i as usize;
        assert!(bit(x, i), "bit ilog2 is set");
        // every higher bit is clear: x < 2^(i+1)
        if i < 255 {
            assert!(lt(x, pow2(i + 1)));
        }
        assert!(le(pow2(i), x));
    }
    kani::cover!(want == Some(255), "witness: top bucket");
    kani::cover!(want == Some(0), "witness: bucket 0");
    kani::cover!(want == Some(64), "witness: limb boundary");
}

/// `BucketIndex::range(i)` brackets exactly the distances with `ilog2 == i`.
/// (`U256::pow` loops over the exponent bits: this harness fixes the bucket index per
/// instance and keeps the distance symbolic.)
macro_rules! range_harness {
    ($name:ident, $i:expr) => {
        #[kani::proof]
        #[kani::unwind(70)]
        fn $name() {
            let i: usize = $i;
            let (lo, hi) = bucket_range(i);
            assert!(limbs(lo) == pow2(i), "range minimum is 2^i");
            if i < 255 {
                let (next, _) = add(limbs(hi), [1, 0, 0, 0]);
                assert!(next == pow2(i + 1), "range maximum is 2^(i+1) - 1");
            } else {
                assert!(limbs(hi) == [u64::MAX; 4], "top bucket extends to the maximum distance");
            }
            let x = any_limbs();
            let d = dist(x);
            assert!((lo <= d && d <= hi) == (bucket_index(&d) == Some(i)), "d in range(i) iff bucket_index(d) == i");
            kani::cover!(d == lo, "witness: lower boundary");
            kani::cover!(d == hi, "witness: upper boundary");
        }
    };
}
range_harness!(c40_q_range_0, 0);
#[cfg(feature = "thorough")]
range_harness!(c40_t_range_63, 63);
#[cfg(feature = "thorough")]
range_harness!(c40_t_range_64, 64);
range_harness!(c40_q_range_255, 255);
#[cfg(feature = "thorough")]
range_harness!(c40_t_range_1, 1);
#[cfg(feature = "thorough")]
range_harness!(c40_t_range_7, 7);
#[cfg(feature = "thorough")]
range_harness!(c40_t_range_8, 8);
#[cfg(feature = "thorough")]
range_harness!(c40_t_range_127, 127);
#[cfg(feature = "thorough")]
range_harness!(c40_t_range_128, 128);
#[cfg(feature = "thorough")]
range_harness!(c40_t_range_191, 191);
#[cfg(feature = "thorough")]
range_harness!(c40_t_range_192, 192);
#[cfg(feature = "thorough")]
range_harness!(c40_t_range_254, 254);

/// Keys that agree in three of their four 64-bit words (concrete, equal) and differ only in
/// word I (symbolic): the edge case "shared aligned words", cheap because most of the data is
/// concrete.  Same laws as above.
fn one_differing_limb<const I: usize>() {
    let base: L = [0x0123_4567_89ab_cdef, 0xfedc_ba98_7654_3210, 0x0f0f_0f0f_f0f0_f0f0, 0x8000_0000_0000_0001];
    let (mut a, mut b) = (base, base);
    a[I] = kani::any();
    b[I] = kani::any();
    let (ka, kb) = (key(a), key(b));
    let d = ka.distance(&kb);
    assert!(limbs(d) == xor(a, b), "distance is the bitwise XOR of the two keys");
    assert!(kb.distance(&ka) == d, "symmetry");
    assert!(ka.for_distance(d) == kb, "for_distance inverts distance");
    assert!(d.ilog2() == top_bit(xor(a, b)), "bucket index = highest differing bit");
    kani::cover!(a[I] != b[I], "witness: keys differ in the chosen word");
}
macro_rules! odl {
    ($name:ident, $i:expr) => {
        #[kani::proof]
        #[kani::unwind(34)]
        fn $name() {
            one_differing_limb::<$i>()
        }
    };
}
odl!(c40_q_distance_keys_differ_in_word_0, 0);
odl!(c40_q_distance_keys_differ_in_word_2, 2);
#[cfg(feature = "thorough")]
odl!(c40_t_distance_keys_differ_in_word_1, 1);
#[cfg(feature = "thorough")]
odl!(c40_t_distance_keys_differ_in_word_3, 3);

#[cfg(verif_replay)]
include!(env!("VERIF_REPLAY_FILE"));

//! Stubs shared by the harnesses of this crate (each use is listed in the evidence file).

/// `std::hash::RandomState::new` reaches the `getrandom` syscall for the SipHash keys, which
/// Kani cannot execute.  The properties checked here do not depend on the hash seed.
pub fn fixed_random_state() -> std::hash::RandomState {
    // SAFETY: RandomState is two u64 keys.
    unsafe { std::mem::transmute::<[u64; 2], std::hash::RandomState>([1, 2]) }
}

/// `alloc::fmt::format` builds error/log strings; never the subject of a property here.
pub fn empty_format(_: std::fmt::Arguments<'_>) -> String {
    String::new()
}

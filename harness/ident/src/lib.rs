//! Kani harnesses over libp2p-identity with the `ecdsa` feature: see /verif/DESIGN.md.
#![cfg_attr(kani, feature(allocator_api))]
#![allow(dead_code, unused_imports, unused_features)]
#[cfg(kani)]
pub(crate) mod stubs;
#[cfg(all(kani, feature = "c20"))]
mod c20_ecdsa;

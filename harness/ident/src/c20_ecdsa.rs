//! C20 (key decoding part) — decoding arbitrary bytes returns an error instead of panicking:
//! the ASN.1 header check of `ecdsa::PublicKey::try_decode_der`.
//!
//! Input: the well-formed 26-byte SubjectPublicKeyInfo header for P-256 in which the two
//! length bytes and the BIT STRING length byte are symbolic, followed by T symbolic bytes
//! (T < 33, so the SEC1 point parser always rejects by length and no curve arithmetic is
//! reached).  Asserted: never panics, always `Err` (a key that short cannot be valid).
use libp2p_identity::ecdsa::PublicKey;

const HEAD: [u8; 26] = [
    0x30, 0x59, 0x30, 0x13, // SEQUENCE, SEQUENCE(19)
    0x06, 0x07, 0x2a, 0x86, 0x48, 0xce, 0x3d, 0x02, 0x01, // ecPublicKey
    0x06, 0x08, 0x2a, 0x86, 0x48, 0xce, 0x3d, 0x03, 0x01, 0x07, // secp256r1
    0x03, 0x42, 0x00, // BIT STRING(66), no unused bits
];

fn truncated<const T: usize>() {
    let mut buf = [0u8; 32];
    let mut i = 0;
    while i < 26 {
        buf[i] = HEAD[i];
        i += 1;
    }
    buf[1] = kani::any(); // outer length: not checked by the parser, any value
    buf[24] = kani::any(); // BIT STRING length byte: announces any key length
    let tail: [u8; T] = kani::any();
    let mut j = 0;
    while j < T {
        buf[26 + j] = tail[j];
        j += 1;
    }
    let r = PublicKey::try_decode_der(&buf[..26 + T]);
    assert!(r.is_err(), "a truncated / too short key is rejected with an error, never a panic");
    kani::cover!(buf[24] as usize > T + 1, "witness: BIT STRING announces more bytes than present");
    kani::cover!(buf[24] == 0, "witness: zero length byte");
    std::mem::forget(r);
}

#[kani::proof]
#[kani::unwind(70)]
#[kani::stub(alloc::fmt::format, crate::stubs::empty_format)]
fn c20_q_ecdsa_der_header_truncated_3() {
    truncated::<3>()
}
#[cfg(feature = "thorough")]
#[kani::proof]
#[kani::unwind(70)]
#[kani::stub(alloc::fmt::format, crate::stubs::empty_format)]
fn c20_t_ecdsa_der_header_truncated_0() {
    truncated::<0>()
}

#[cfg(verif_replay)]
include!(env!("VERIF_REPLAY_FILE"));

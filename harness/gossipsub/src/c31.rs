//! C31 — gossipsub RPC size limits are applied per frame.
//!
//! Real code (via hook): `libp2p_gossipsub::protocol::validate_rpc_limits`, the pure
//! `&[u8]` pre-validation `GossipsubCodec::decode` runs on the receive buffer.  The receive
//! buffer = one length-prefixed RPC frame of a concrete shape, followed by T symbolic
//! bytes of whatever arrived next (a coalesced following frame), or a proper prefix of
//! the frame.  Limits are symbolic.  Oracle: per-frame semantics from the property text.
use libp2p_gossipsub::verif_hooks::validate_rpc_limits;
use std::io::ErrorKind;

/// `frame`: complete length-prefixed RPC (prefix byte = payload length).  `publish` /
/// `control`: number of publish entries and total encoded size of control fields in it.
fn complete_frame<const N: usize, const T: usize>(frame: [u8; N], publish: usize, control: usize) {
    let declared = frame[0] as usize;
    assert!(declared + 1 == N);
    let trailing: [u8; T] = kani::any();
    let mut buf = [0u8; 16];
    let mut i = 0;
    while i < N {
        buf[i] = frame[i];
        i += 1;
    }
    let mut j = 0;
    while j < T {
        buf[N + j] = trailing[j];
        j += 1;
    }
    let (m, p, c): (usize, usize, usize) = (kani::any(), kani::any(), kani::any());
    let r = validate_rpc_limits(&buf[..N + T], m, p, c);
    if declared > m {
        assert!(r.is_err(), "an RPC whose encoding exceeds max_transmit_size is rejected");
    } else if publish > p || control > c {
        assert!(r.is_err(), "publish / control limits are enforced");
    } else {
        assert!(r == Ok(true), "an RPC within all limits is accepted, whatever follows it in the receive buffer");
    }
    kani::cover!(declared == m, "witness: frame of exactly the maximum size");
    kani::cover!(T < 2 || (declared < m && m < N + T), "witness: limit between the frame size and the buffer size");
}

/// A proper prefix (first S bytes) of a frame: never an error for an admissible frame,
/// never accepted.
fn partial_frame<const N: usize, const S: usize>(frame: [u8; N]) {
    let declared = frame[0] as usize;
    assert!(declared + 1 == N && S < N);
    let (m, p, c): (usize, usize, usize) = (kani::any(), kani::any(), kani::any());
    let r = validate_rpc_limits(&frame[..S], m, p, c);
    assert!(r != Ok(true), "an incomplete frame is never accepted");
    if declared <= m {
        assert!(r == Ok(false), "the prefix of an admissible frame just waits for more bytes");
    }
    kani::cover!(declared <= m, "witness: admissible");
}

// RPC payload shapes (protobuf): field 2 = publish (LEN), field 3 = control (LEN), field 1 = subscriptions (LEN)
const ONE_EMPTY_PUBLISH: [u8; 3] = [2, 0x12, 0x00];
const TWO_PUBLISH: [u8; 6] = [5, 0x12, 0x00, 0x12, 0x01, 0x00];
const CONTROL_3: [u8; 4] = [3, 0x1a, 0x01, 0x00];
const SUBS_AND_CONTROL: [u8; 6] = [5, 0x0a, 0x00, 0x1a, 0x01, 0x00];
const EMPTY: [u8; 1] = [0];
// unknown top-level fields of non-length-delimited wire types (a newer peer may send them; prost
// skips them): field 4 varint, field 11 fixed32, next to one publish entry
const UNKNOWN_VARINT_AND_PUBLISH: [u8; 5] = [4, 0x20, 0x01, 0x12, 0x00];
const UNKNOWN_FIXED32: [u8; 6] = [5, 0x5d, 1, 2, 3, 4];

#[kani::proof]
#[kani::unwind(20)]
#[kani::stub(alloc::fmt::format, crate::stubs::empty_format)]
fn c31_q_publish_followed_by_next_frame_bytes() {
    complete_frame::<3, 2>(ONE_EMPTY_PUBLISH, 1, 0)
}
#[kani::proof]
#[kani::unwind(20)]
#[kani::stub(alloc::fmt::format, crate::stubs::empty_format)]
fn c31_q_publish_alone() {
    complete_frame::<3, 0>(ONE_EMPTY_PUBLISH, 1, 0)
}
#[kani::proof]
#[kani::unwind(20)]
#[kani::stub(alloc::fmt::format, crate::stubs::empty_format)]
fn c31_q_control_followed_by_one_byte() {
    complete_frame::<4, 1>(CONTROL_3, 0, 3)
}
#[kani::proof]
#[kani::unwind(20)]
#[kani::stub(alloc::fmt::format, crate::stubs::empty_format)]
fn c31_q_partial_publish() {
    partial_frame::<6, 3>(TWO_PUBLISH)
}
#[kani::proof]
#[kani::unwind(20)]
#[kani::stub(alloc::fmt::format, crate::stubs::empty_format)]
fn c31_q_unknown_varint_field_is_skipped() {
    complete_frame::<5, 1>(UNKNOWN_VARINT_AND_PUBLISH, 1, 0)
}
#[cfg(feature = "thorough")]
#[kani::proof]
#[kani::unwind(20)]
#[kani::stub(alloc::fmt::format, crate::stubs::empty_format)]
fn c31_t_unknown_fixed32_field_is_skipped() {
    complete_frame::<6, 0>(UNKNOWN_FIXED32, 0, 0)
}

/// All but the last byte of a frame have arrived.
#[kani::proof]
#[kani::unwind(20)]
#[kani::stub(alloc::fmt::format, crate::stubs::empty_format)]
fn c31_q_partial_last_byte_missing() {
    partial_frame::<6, 5>(TWO_PUBLISH)
}

/// A frame with a TWO-byte length prefix (declared 128) of which everything but the last
/// byte has arrived: the 129 bytes received exceed the declared length, yet for any limit
/// >= 128 the decoder must wait, not reject.
#[kani::proof]
#[kani::unwind(20)]
#[kani::stub(alloc::fmt::format, crate::stubs::empty_format)]
fn c31_q_partial_two_byte_prefix_last_byte_missing() {
    let mut frame = [0u8; 130];
    frame[0] = 0x80;
    frame[1] = 0x01; // declared length 128
    frame[2] = 0x0a; // subscriptions field, 126 bytes
    frame[3] = 126;
    let (m, p, c): (usize, usize, usize) = (kani::any(), kani::any(), kani::any());
    let r = validate_rpc_limits(&frame[..129], m, p, c);
    assert!(r != Ok(true), "an incomplete frame is never accepted");
    if m >= 128 {
        assert!(r == Ok(false), "the prefix of an admissible frame just waits for more bytes");
    }
    kani::cover!(m == 128, "witness: frame of exactly the maximum size, one byte outstanding");
}

#[cfg(feature = "thorough")]
#[kani::proof]
#[kani::unwind(20)]
#[kani::stub(alloc::fmt::format, crate::stubs::empty_format)]
fn c31_t_two_publish_followed_by_three() {
    complete_frame::<6, 3>(TWO_PUBLISH, 2, 0)
}
#[cfg(feature = "thorough")]
#[kani::proof]
#[kani::unwind(20)]
#[kani::stub(alloc::fmt::format, crate::stubs::empty_format)]
fn c31_t_subs_and_control() {
    complete_frame::<6, 2>(SUBS_AND_CONTROL, 0, 5)
}
#[cfg(feature = "thorough")]
#[kani::proof]
#[kani::unwind(20)]
#[kani::stub(alloc::fmt::format, crate::stubs::empty_format)]
fn c31_t_empty_rpc_followed_by_four() {
    complete_frame::<1, 4>(EMPTY, 0, 0)
}
#[cfg(feature = "thorough")]
#[kani::proof]
#[kani::unwind(20)]
#[kani::stub(alloc::fmt::format, crate::stubs::empty_format)]
fn c31_t_partial_prefix_only() {
    partial_frame::<4, 1>(CONTROL_3)
}
#[cfg(feature = "thorough")]
#[kani::proof]
#[kani::unwind(20)]
#[kani::stub(alloc::fmt::format, crate::stubs::empty_format)]
fn c31_t_partial_nothing() {
    partial_frame::<3, 0>(ONE_EMPTY_PUBLISH)
}

// (A hostile-payload harness — symbolic RPC bytes through prost's `skip_field` — was tried
// and dropped: prost skips group wire types recursively up to depth 100, which symbolic
// execution explores even for one symbolic byte; no result in 15 min.  Payload SHAPES are
// therefore concrete above, and panic-freedom on arbitrary payloads is outside the claim.)

#[cfg(verif_replay)]
include!(env!("VERIF_REPLAY_FILE"));

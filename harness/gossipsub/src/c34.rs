//! C34 — accepted gossipsub configs never break the behaviour.
//!
//! Real code: `libp2p_gossipsub::ConfigBuilder` setters and `ConfigBuilder::build`,
//! `Config` getters.  All parameters are symbolic; the oracle is the list of
//! inequalities of the property statement.

use libp2p_gossipsub::{Config, ConfigBuilder};
use std::time::Duration;

fn invariants(c: &Config) {
    assert!(c.mesh_outbound_min() <= c.mesh_n_low(), "accepted config: mesh_outbound_min <= mesh_n_low");
    assert!(c.mesh_n_low() <= c.mesh_n(), "accepted config: mesh_n_low <= mesh_n");
    assert!(c.mesh_n() <= c.mesh_n_high(), "accepted config: mesh_n <= mesh_n_high");
    assert!(c.mesh_outbound_min() * 2 <= c.mesh_n(), "accepted config: 2*mesh_outbound_min <= mesh_n");
    assert!(c.history_gossip() <= c.history_length(), "accepted config: history_gossip <= history_length");
    assert!(c.max_transmit_size() >= 100, "accepted config: max_transmit_size >= 100");
}

/// Default mesh parameters, history and transmit size: all symbolic (< 2^16 so the
/// `*2` in the oracle cannot overflow), through the real setters, then `build()`.
#[kani::proof]
#[kani::unwind(24)]
#[kani::stub(std::hash::RandomState::new, crate::stubs::fixed_random_state)]
fn c34_q_default_params() {
    let (n, lo, hi, out, hl, hg, mts): (usize, usize, usize, usize, usize, usize, usize) = kani::any();
    kani::assume(n < 65536 && lo < 65536 && hi < 65536 && out < 65536);
    kani::assume(hl < 65536 && hg < 65536);
    let mut b = ConfigBuilder::default();
    b.mesh_n(n).mesh_n_low(lo).mesh_n_high(hi).mesh_outbound_min(out);
    b.history_length(hl).history_gossip(hg).max_transmit_size(mts);
    let r = b.build();
    kani::cover!(r.is_ok(), "witness: some parameter vector is accepted");
    kani::cover!(r.is_err(), "witness: some parameter vector is rejected");
    if let Ok(c) = &r {
        invariants(c);
    }
    std::mem::forget(r);
    std::mem::forget(b);
}

/// The link to "heartbeat never panics": the only subtractions on mesh sizes in
/// `heartbeat` are `mesh_n - peers.len()` under `peers.len() < mesh_n_low` and
/// `peers.len() - mesh_n` under `peers.len() >= mesh_n_high`; both are safe exactly
/// under the accepted-config inequalities.  (heartbeat itself is outside the claim.)
#[kani::proof]
#[kani::unwind(24)]
#[kani::stub(std::hash::RandomState::new, crate::stubs::fixed_random_state)]
fn c34_q_heartbeat_arithmetic_link() {
    let (n, lo, hi, out): (usize, usize, usize, usize) = kani::any();
    kani::assume(n < 65536 && lo < 65536 && hi < 65536 && out < 65536);
    let peers: usize = kani::any();
    let mut b = ConfigBuilder::default();
    b.mesh_n(n).mesh_n_low(lo).mesh_n_high(hi).mesh_outbound_min(out);
    let r = b.build();
    kani::cover!(r.is_ok(), "witness: accepted");
    if let Ok(c) = &r {
        if peers < c.mesh_n_low() {
            assert!(c.mesh_n().checked_sub(peers).is_some(), "heartbeat: mesh_n - peers.len() cannot underflow");
        }
        if peers >= c.mesh_n_high() {
            assert!(peers.checked_sub(c.mesh_n()).is_some(), "heartbeat: peers.len() - mesh_n cannot underflow");
        }
    }
    std::mem::forget(r);
    std::mem::forget(b);
}

#[cfg(verif_replay)]
include!(env!("VERIF_REPLAY_FILE"));

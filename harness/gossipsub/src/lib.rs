//! Kani harnesses over libp2p-gossipsub: see /verif/DESIGN.md.
#![cfg_attr(kani, feature(allocator_api))]
#![allow(dead_code, unused_imports, unused_features)]
#[cfg(kani)]
pub(crate) mod stubs;
#[cfg(all(kani, feature = "c34"))]
mod c34;
#[cfg(all(kani, feature = "c31"))]
mod c31;

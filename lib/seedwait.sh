#!/bin/sh
# lib/seedwait.sh <jobs-file>: wait until no other seed test is running, then run the queue.
while [ -n "$(ls /tmp/vw/*.lock 2>/dev/null)" ]; do sleep 15; done
touch /tmp/vw/$$.lock
/verif/lib/seedqueue.sh "$1"
rm -f /tmp/vw/$$.lock

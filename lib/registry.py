"""Per-property metadata used by the driver for evidence files (what is decided, bounds,
what is outside the claim, stubs/hooks/assumptions).  Harness functions themselves are
discovered by name (<id>_q_*, <id>_t_*) in the listed source files."""

TRACING = "stub: no-op `tracing` shim (log macros expand to nothing; arguments not evaluated)"
FORGET = "assume: destructors of heap values (Vec/Bytes/Multiaddr/io::Error) are not the subject: harnesses mem::forget them"
FMT = "stub: alloc::fmt::format returns an empty String (-Z stubbing)"
WEBTIME = "stub: `web-time` shim: Instant = u64 ns set by the harness (time is a symbolic variable)"
TIMER = "stub: `futures-timer` shim: Delay ready iff shim clock >= deadline"

PROPS = {}

# larger field-sensitivity array size: concrete arrays of up to 200 elements keep their contents
# concrete during symbolic execution (default 64)
FS200 = ["-Z", "unstable-options", "--cbmc-args", "--max-field-sensitivity-array-size", "200"]

PROPS["C22"] = dict(
    group="core", files=["c22.rs"],
    explanation=(
        "libp2p_core::transport::global_only::Transport::dial (with ipv4_global::is_global / "
        "ipv6_global::is_global) wrapped around a recording inner transport, run on a real Multiaddr "
        "whose first component is Ip4(sym)/Ip6(sym) (all 2^32 / 2^128 addresses, symbolic port) or a "
        "non-IP shape. Oracle: IANA special-purpose registries as a prefix table in the harness: address "
        "in a not-globally-reachable block => Err(MultiaddrNotSupported(addr)) and inner dial never "
        "called; address in no special block => inner dial called exactly once with the byte-identical "
        "address; globally-reachable carve-outs and N/A blocks are don't-care."),
    bounds="address = [ip4|ip6](sym)/tcp(sym) or one of 5 non-IP-leading shapes (empty, tcp-first, memory, udp/quic, p2p-circuit-first); unwind 24 (covers the 20-byte ip6 multiaddr)",
    outside="DNS-first addresses (string component: no result in 40 min); listen_on/poll forwarding; addresses with further components after /tcp; PortUse/role variation",
    stubs=[TRACING], assumptions=[FORGET], hooks=[],
)


def harness_bounds(prop, name):
    spec = PROPS.get(prop, {})
    hb = spec.get("harness_bounds", {})
    for k, v in hb.items():
        if k in name:
            return v
    return spec.get("bounds", "")


HASHMAP = ("state lives in hashbrown HashMap/HashSet (a single insert did not finish in >10 min under CBMC, "
           "DESIGN.md section 4)")
NA = {
    "C02": "the counters themselves (ConnectionCounters inc/dec, four u32 fields) are trivially decidable, but every realistic breakage sits where Pool::poll / Swarm decide WHICH counter to touch (HashMap<ConnectionId,..>/HashMap<PeerId,..> state, FuturesUnordered, channels): both independently seeded changes (pending counter leaked on a failed identity check; phantom peer entry after NotifyHandler::Any) are at such call sites, so a kernel-only check would claim the property while detecting neither",
    "C03": "uniqueness across threads is the quantifier: Kani executes atomics sequentially, so a non-atomic load/store rewrite of ConnectionId::next (seeded change A) is invisible, and the other seeded change (id handed back after a denied inbound connection) lives in Swarm::handle_transport_event; a sequential kernel check would detect neither",
    "C09": "rank_dials walks every Multiaddr a dozen times with iter().any(..); Multiaddrs with three or more components or a DNS string component do not finish under CBMC (measured on C13/C22: every component read back from the heap buffer forks symbolic execution), and the property's alphabet (quic-v1, webtransport, relay, DNS names) needs exactly those; the suspected DNS-localhost inversion in is_global_addr is therefore not decidable here and not reported",
    "C17": "the property is about ciphertext integrity and write/read chunking through snow + the Output/Codec I/O state machines; the only kernel within reach (2-byte length prefix encode/decode) is not where realistic breakage sits (both seeded changes are in Output::poll_write and Codec::decode_eof), so a kernel-only check would claim the property while detecting neither",
    "C44": "the conversions go through prost messages with Vec<u8>/Vec<Peer> fields: prost's field parser on symbolic bytes forks without bound (measured on C31/C57: recursive group skipping, symbolic-length Vec fills), and KadPeer carries Vec<Multiaddr> (measured infeasible on C12)",
    "C49": "CopyFuture copies through two 8 KiB BufReaders (arrays far beyond CBMC's field-sensitivity limit, contents become symbolic) and is driven by hand-polling futures with wakers; the smaller hand-polled probe (multistream listener, design phase) did not finish in 10 min, so this was not built",
    "C50": "filter_valid_addrs only accepts addresses ending in /p2p/<peer id> (>= 3 components incl. a 38-byte multihash component) and the interesting inputs have two IP components (>= 4 components); Multiaddrs with three or more components do not finish under CBMC (measured on C13)",
    "C52": "check_limit (current >= limit) is trivially decidable, but the limits are enforced by WHICH set sizes the behaviour passes to it (five HashSet<ConnectionId> / HashMap<PeerId,HashSet<..>> fields updated in on_swarm_event): both independently seeded changes (per-peer set dropped on any close; unknown-peer dials skipping the pending-outgoing check) are there, so a kernel-only check would claim the property while detecting neither; a single hashbrown insert is beyond CBMC here",
    "C01": "lifecycle pairing lives in Pool::poll/Swarm::handle_pool_event: " + HASHMAP + ", FuturesUnordered, mpsc channels and an executor across >=2 Swarms; Kani does not model concurrency",
    "C04": "Swarm::dial needs a constructed Swarm (pool/listener hash maps, HashSet address dedup); the condition matrix is inline in that method, not callable separately",
    "C05": "the peer-id check is a closure inside Pool::poll (same state as C01)",
    "C06": "Swarm-level denial handling has the same reach as C01; only the composition rule is decided, under C58",
    "C07": "PendingNotifyHandler, bounded per-connection channels and back-pressure are scheduling of real channels/tasks",
    "C08": "ConcurrentDial/SmartDial are built on FuturesUnordered (Arc-linked task list with atomics) and boxed futures; quantifier is over completion schedules",
    "C12": "ExternalAddresses is Vec<Multiaddr>-backed and was tried: one symbolic confirm/expire event on a list of 3 one-component addresses (Vec insert/remove at a symbolic position + Arc<Vec<u8>> equality) did not finish in 30 min; ListenAddresses is a HashSet, PeerAddresses an LruCache, Swarm::listeners() lives in the Swarm's hash maps",
    "C15": "tried through a cfg(libp2p_verif) mirror of Message::{encode,decode}: Message::decode copies the frame into a heap Bytes, whose bytes come back symbolic to CBMC, so the ls-response loop (varint length, UTF-8 validation, Vec<Protocol> push) forks without bound: even ONE symbolic input byte did not finish in 30 min (10 718 paths explored); only the three keyword round trips verified, which is too thin to claim",
    "C14": "hand-polled listener_select_proto with a concrete script and a symbolic read-chunk size did not finish in 10 min at 5 GB (design-phase probe), and the message layer underneath (C15) is itself out of reach",
    "C11": "from_full_sets/add/remove operate on HashMap/HashSet of strings; " + HASHMAP,
    "C16": "property is about X25519/ChaCha20-Poly1305/ed25519 under an active adversary; symbolic execution of the ciphers does not terminate and stubbing them removes the property",
    "C18": "X.509/DER parsing and signature verification go through ring/webpki FFI, not executable under Kani",
    "C21": "signature soundness is a cryptographic property of ed25519/RSA/ECDSA implementations",
    "C23": "do_dial is an async block over hickory lookup types, Arc<Mutex<T>> inner transport and up to 32x16 Multiaddr rebuilding iterations",
    "C24": "mplex Multiplexed keeps substreams in IntMap (hashbrown) with wakers over a Framed socket; yamux is a third-party task-based state machine",
    "C26": "same state as C24 (IntMap of substreams, wakers, Framed socket)",
    "C27": "whole-behaviour invariant over HashMap<TopicHash, BTreeSet<PeerId>>, f64 peer scores, random peer selection, multi-node networks",
    "C28": "mesh maintenance over HashMap/BTreeSet state with f64 scoring and RNG selection",
    "C29": "handler/behaviour mesh-state agreement is an interleaving property of Swarm-driven events over hash-map state",
    "C30": "strict mode is signature verification (crypto); mode dispatch sits behind a prost parse and HashMap topic lookups",
    "C32": "BackoffStorage = nested HashMap + Vec<HashSet>; " + HASHMAP,
    "C33": "TimeCache = FnvHashMap + VecDeque, MessageCache = HashMaps; " + HASHMAP,
    "C35": "fanout/fanout_last_pub are HashMaps inside the full Behaviour",
    "C36": "subscription filters work on HashSet<&Subscription>/BTreeSet<TopicHash>",
    "C39": "ClosestPeersIter is a BTreeMap<Distance,Peer> keyed by SHA-256 of peer ids (BTreeMap with symbolic keys did not finish); quantifier is over peer graphs and response schedules",
    "C41": "MemoryStore is three HashMaps; " + HASHMAP,
    "C43": "source/publisher checks are branches inside on_connection_handler_event/record_received of a full Behaviour (kbuckets, query pool, jobs: hash maps)",
    "C45": "request-response keeps HashMap of connections, handler tasks and timeouts; quantifier over schedules",
    "C46": "public-key decoding and signed-envelope verification are crypto; the remainder is HashMap state",
    "C47": "admission conditions are inline in on_connection_handler_event over HashMap<PeerId, HashMap<ConnectionId,..>>, events carry live stream objects",
    "C48": "GenericRateLimiter keeps balances in HashMap<Id,u32>: even the first accepted request is a hashbrown insert",
    "C51": "BiMap, HashMap, LruCache, FuturesUnordered and signed peer records (crypto)",
    "C53": "HashSet<PeerId> state driven through a Swarm",
    "C54": "peer store is HashMap + LRU cache",
    "C55": "packet building loops up to the 9000-byte limit and parsing is hickory-proto's Message::from_vec",
}

RANDSTATE = "stub: std::hash::RandomState::new returns fixed keys (real one needs the getrandom syscall); property does not depend on the hash seed"

PROPS["C34"] = dict(
    group="gossipsub", files=["c34.rs"],
    explanation=(
        "libp2p_gossipsub::ConfigBuilder: symbolic mesh_n, mesh_n_low, mesh_n_high, mesh_outbound_min, "
        "history_length, history_gossip (< 2^16) and max_transmit_size (any usize) pushed through the real "
        "setters, then the real build(); for every accepted Config the inequalities of the statement are "
        "asserted through the real getters. A second harness machine-checks that the two mesh-size "
        "subtractions in heartbeat cannot underflow under an accepted config (the arithmetic link only)."),
    bounds="parameters < 65536 (max_transmit_size unbounded); default parameter set; unwind 24 (clone loops over empty maps)",
    outside="per-topic parameter sets inserted through set_topic_config/mesh_n_for_topic (hashbrown insert is beyond CBMC here, DESIGN section 4); heartbeat itself (hash maps, RNG) — only its arithmetic precondition is checked",
    stubs=[TRACING, RANDSTATE], assumptions=[FORGET], hooks=[],
)

KADHOOK = "hook: libp2p_kad::verif_hooks (cfg(libp2p_verif)) thin wrappers: KeyBytes::verif_from_raw, bucket_index, bucket_range, bucket_visit_order, Table, record_wire_ttl, merged_expiry"
NOSHA = "assume: keys are arbitrary 32-byte strings built without hashing (KeyBytes::verif_from_raw); SHA-256 itself is not executed"

PROPS["C40"] = dict(
    group="kad", files=["c40.rs"],
    explanation=(
        "KeyBytes::distance / for_distance, Distance ordering and ilog2, BucketIndex::new and BucketIndex::range "
        "of libp2p-kad on fully symbolic 256-bit keys/distances (all 2^256 values each, up to three keys at once): "
        "distance = XOR, zero iff equal, symmetric, unidirectional, triangle inequality (non-overflowing sums, as in "
        "the repo's own test), for_distance inverts distance both ways, ilog2/bucket index = highest set bit, "
        "range(i) brackets exactly the distances with index i. Oracle: independent 4x64-bit limb arithmetic."),
    bounds="all 256-bit keys; bucket range checked for indices {0,63,64,255} (quick) + {1,7,8,127,128,191,192,254} (thorough) with the distance symbolic; unwind 34/70",
    outside="Key<T>::new / KeyBytes::new (SHA-256 preimage hashing); bucket ranges for the other indices",
    stubs=[TRACING], assumptions=[NOSHA], hooks=[KADHOOK],
)

PROPS["C38"] = dict(
    group="kad", files=["c38.rs"],
    explanation=(
        "ClosestBucketsIter (bucket visiting order) for ALL 2^256 target distances: produces every bucket index "
        "0..=255 exactly once, in exactly the order 'set bits of d high->low, then clear bits low->high'; a second "
        "harness machine-checks that this bit order IS the order of XOR distance to the target for all keys of "
        "consecutive buckets. End to end: KBucketsTable::closest_keys on a small table returns every stored key "
        "exactly once in non-decreasing XOR distance to the target."),
    bounds="bucket order: all 256-bit distances, full 256-step iteration (unwind 258); end-to-end: <=3 stored keys, bucket size 2-3, symbolic keys within 2-3 buckets, symbolic target",
    outside="tables with more than 3 entries; pending entries applied during iteration (covered under C37); closest() projection (same iterator, different map)",
    stubs=[TRACING, WEBTIME], assumptions=[NOSHA, FORGET], hooks=[KADHOOK],
)

PROPS["C42"] = dict(
    group="kad", files=["c42.rs"],
    explanation=(
        "kad record lifetimes with time as a symbolic variable (web-time shim clock): record_to_proto's wire ttl for "
        "every (now, expiry) pair incl. sub-second, already-expired and > 2^32 s lifetimes (ttl 0 iff no expiry; never "
        "more than the remaining whole seconds, never wraps); record_from_proto's expiry for every wire ttl; the "
        "expiry merge used by Behaviour::record_received (earliest_expiry) for every pair of optional instants "
        "(<= sender's, <= local, None only if both None); exp_decrease never lengthens; and the one-hop composition."),
    bounds="instants = (secs < 2^40 [+2^41 for the saturation case], nanos < 10^9), now >= 2^10 s; all u32 wire ttls; all Option<Instant> pairs; zero transit time in the one-hop harness",
    outside="that record_received passes the right `now`/num_beyond_k and is the only store path (Behaviour state is hash maps); MemoryStore expiry handling (C41); provider records",
    stubs=[TRACING, WEBTIME], assumptions=["clock readings are non-decreasing u64 nanoseconds (shim); property is translation invariant"], hooks=[KADHOOK],
)

PROPS["C37"] = dict(
    group="kad", files=["c37.rs"],
    explanation=(
        "One inductive step on the real KBucket<KeyBytes,u8> with the real Entry dispatch: the bucket is placed in an "
        "ARBITRARY valid state (n nodes with symbolic distinct keys, symbolic first_connected_pos, optional pending "
        "entry with symbolic key/status/deadline; symbolic clock and pending timeout), then one operation as "
        "KBucketsTable::entry performs it on the selected bucket (apply_pending, then Present/Pending/Absent dispatch: "
        "insert / status update / remove / plain access) with a symbolic key and status. The complete post-state "
        "(order, statuses, pending entry, applied-pending report, outcome) is compared with a reference model written "
        "from KBucket's documentation; capacity, key uniqueness, pending-key exclusion and the "
        "disconnected-before-connected representation invariant are asserted. The arbitrary pre-state makes the step "
        "cover operation histories of any length within the shape bounds."),
    bounds="bucket capacity 2 (quick) / 3 (thorough); pre-state node count concrete per instance (0..=cap); keys differ in their last byte only (8 values); one operation per harness; clock secs < 2^40, timeout < 2^20 s; unwind 34",
    outside="KBucketsTable::entry's bucket selection and per-bucket application of pending entries (the 256-bucket table cannot be built under CBMC: KBucketsTable::new alone runs out of memory; the index function is decided under C40); bucket capacities > 3 (K_VALUE = 20 in production); local-key exclusion (entry() returns None for distance 0)",
    stubs=[TRACING, WEBTIME], assumptions=[NOSHA, FORGET, "pre-state restricted to the representation invariant: distinct keys, first_connected_pos < len, pending key not stored, node list allocated with the bucket capacity (as KBucket::new does)"], hooks=[KADHOOK],
)

PROPS["C56"] = dict(
    group="wire", files=["c56.rs"],
    explanation=(
        "Every method of libp2p_webrtc_utils::stream::state::State (through a cfg(libp2p_verif) mirror), driven in "
        "exactly the call order Stream::{poll_read,poll_write,poll_close,poll_close_read} use, with symbolic I/O "
        "readiness and symbolic inbound flags: (1) one operation from EVERY state value: no unreachable!/debug_assert "
        "fires, barrier verdicts match the half-close status, BothClosed absorbing, ConnectionReset after reset; "
        "(2) all operation/flag sequences of 4 (quick) / 6 (thorough) steps from Open against history-defined ghost "
        "variables: reads only while the read half is open, writes only while the write half is open, after RESET "
        "every operation fails with ConnectionReset."),
    bounds="all 13 state values x 4 operations x symbolic readiness/flags (one step); sequences <= 4 / 6 operations from Open",
    outside="Stream's own I/O (Framed data channel, prost decode, read_buffer handling, drop_notifier) — only the State calls Stream makes are modelled, in Stream's order; inbound FIN/STOP_SENDING arriving while the other half is mid-close is treated as don't-care (the code drops the flag; the property text is silent)",
    stubs=[TRACING], assumptions=["the harness mirrors Stream's call protocol (read from stream.rs): barrier before every transition"], hooks=["hook: libp2p_webrtc_utils::verif_hooks (StateRepr mirror + Machine wrappers calling the private State methods)"],
)

PROPS["C57"] = dict(
    group="wire", files=["c57.rs"],
    explanation=(
        "prost_codec::Codec::{encode,decode} on a real BytesMut with the crate's own message type: (1) a declared "
        "length above a symbolic limit (< 300) is rejected from the 1- or 2-byte length prefix alone, an admissible one "
        "waits without consuming; (2) encode->decode round trip at EVERY split point of the byte stream for payloads of "
        "1 (quick) / 0 and 3 (thorough) symbolic bytes; (3) two frames back to back; (4) a 128-byte frame (two-byte "
        "prefix) with the last 1-2 bytes missing waits and then decodes; (5) 3 (quick) / 5 (thorough) arbitrary bytes "
        "with a symbolic limit <= 4: no panic, consumes nothing on Ok(None), decoded message within the limit."),
    bounds="payloads <= 3 symbolic bytes (one 128-byte frame with concrete contents, probe message type); limits < 300; hostile input <= 5 bytes; unwind 12 (140 for the 128-byte frame)",
    outside="prost's own field parser on hostile payload bytes (the hostile/128-byte harnesses instantiate the generic Codec with a probe message type whose merge only records the bytes handed over; the round-trip harnesses use the crate's real prost message); the FramedRead/FramedWrite plumbing around the codec; payloads > 3 symbolic bytes",
    stubs=[TRACING, FMT], assumptions=[FORGET, "generic instantiations checked: Codec<prost_codec::proto::Message> (round trips) and Codec<Probe> (framing of hostile input)"], hooks=[],
)

PROPS["C25"] = dict(
    group="wire", files=["c25.rs"],
    explanation=(
        "libp2p_mplex::codec::Codec (Decoder + Encoder, via a cfg(libp2p_verif) mirror of the private frame types) on a "
        "real BytesMut: (1) decoding [header, len, payload] for a symbolic one-byte header (every flag incl. the invalid "
        "7, stream ids 0..15) and symbolic payload, whole; and at every split point for each of the 8 flags with a concrete "
        "header, against the mplex flag table written in the harness (kind, remote role, id, payload, mirrored local "
        "role, decoder back at Begin); (2) the real encoder against the same wire specification (header varint from id "
        "and LOCAL role, length, payload) for every kind/role, so encode -> spec bytes -> decode composes to the round "
        "trip with the role mirrored; (3) the 1 MiB bound decided from the length varint alone "
        "(1 MiB+1 rejected without payload, exactly 1 MiB admitted); (4) hostile header/length/payload bytes never "
        "panic and never over-deliver."),
    bounds="decode: one-byte headers (symbolic, stream id < 16, whole frames; concrete header per flag for split frames), payload <= 1 (quick) / 3 (thorough) symbolic bytes, all split points of those frames; encode: concrete kind/role/id (one- and two-byte headers) and concrete payload; length prefixes {5, 1 MiB, 1 MiB+1, 2^32-1, 2^32, 2^40+5}; two-byte header varints (ids 16, 300, 2047) split inside/after the header; hostile: 2 + N <= 6 bytes; unwind 12",
    outside="encoder and decoder chained in one harness (exhausts 48 GB in CBMC; composed through the specification bytes instead); header varints of three and more bytes (stream ids >= 2048); Multiplexed (substream bookkeeping, C24/C26)",
    stubs=[TRACING, FMT], assumptions=[FORGET], hooks=["hook: libp2p_mplex::verif_hooks (FrameRepr mirror, CodecHook wrapping the real Codec)"],
)

PROPS["C13"] = dict(
    group="swarm", files=["c13.rs"],
    explanation=(
        "libp2p_swarm::_address_translation on real Multiaddrs, one harness per (original shape, observed shape) with "
        "all IP addresses (2^32 / 2^128) and ports symbolic: result is byte-identical to 'first component of observed "
        "followed by every later component of original' exactly when both first components are IP/DNS, else None — "
        "including originals with a second host component further down (must be preserved) and observed addresses "
        "whose host is not the first component (must give None)."),
    bounds="6 (quick) / 11 (thorough) shape pairs over ip4/ip6/tcp/memory/p2p-circuit/empty, <= 2 components per address; unwind 40",
    outside="addresses with three or more components and DNS host components (tried: no result in 15 min, every component read back from the heap Multiaddr forks symbolic execution); p2p components",
    stubs=[TRACING], assumptions=[FORGET], hooks=[],
)

PROPS["C31"] = dict(
    group="gossipsub", files=["c31.rs"], kani_args=FS200,
    explanation=(
        "libp2p_gossipsub::protocol::validate_rpc_limits (the pre-validation GossipsubCodec::decode runs on its receive "
        "buffer) on: a complete length-prefixed RPC of a concrete shape (publish entries, control field, subscriptions, "
        "empty) followed by 0-3 SYMBOLIC bytes of the next frame, with all three limits symbolic: rejected iff the "
        "frame's own encoding exceeds max_transmit_size or breaks the publish/control limits, accepted otherwise "
        "whatever follows it; proper prefixes of a frame: never accepted, and Ok(false) (wait) when the frame is "
        "admissible."),
    bounds="frames <= 6 bytes of 7 concrete protobuf shapes (publish, control, subscriptions, empty, unknown varint/fixed32 fields), 0-4 trailing symbolic bytes, limits = any usize; one-byte length prefixes; unwind 20",
    outside="arbitrary (hostile) payload bytes through prost skip_field (recursive group skipping, depth 100: no result in 15 min even for one symbolic byte); GossipsubCodec::decode after the pre-validation (prost parse into Rpc, per-topic size check, signature handling: HashMap + crypto); multi-byte length prefixes; Framed's chunk delivery (covered by quantifying over the buffer contents at each decode call)",
    stubs=[TRACING, FMT], assumptions=[], hooks=["hook: libp2p_gossipsub::verif_hooks::validate_rpc_limits (wrapper calling the private function)"],
)

PROPS["C20"] = dict(
    group="core", files=["c20.rs"],
    extra_groups=[("ident", ["c20_ecdsa.rs"])],
    explanation=(
        "libp2p_identity::PeerId::from_bytes / to_bytes on N symbolic bytes (N per instance): accepted iff the input is "
        "exactly [0x00, len<=42, digest] or [0x12, 32, digest] (SHA2-256 code with another digest length left open), "
        "rejected otherwise; for every accepted p: to_bytes(p) == input and from_bytes(to_bytes(p)) == p; never panics. "
        "Key decoding (one key type): ecdsa::PublicKey::try_decode_der on the P-256 SubjectPublicKeyInfo header with "
        "symbolic length bytes followed by 0-3 symbolic bytes: always Err, never a panic."),
    bounds="input lengths {0,1,2,3,44} (quick) + {4,6,34,36,45} (thorough), all byte values; unwind 70",
    outside="base58 text encoding; PeerId::from_public_key (needs key generation / SHA-256 / protobuf of real keys); public/private key protobuf round trips and decoding of full-length keys (curve arithmetic, RSA); DER inputs whose header is not the P-256 one; inputs longer than 45 bytes",
    stubs=[TRACING, FMT], assumptions=[FORGET], hooks=[],
)

PROPS["C58"] = dict(
    group="swarm", files=["c58.rs"],
    explanation=(
        "The code generated by #[derive(NetworkBehaviour)] for a struct with three probe fields whose allow/deny "
        "decision at each of the four connection callbacks and number of contributed dial addresses are symbolic and "
        "whose received calls go to a fixed-size log: a connection/dial is denied iff some field denies; fields are asked "
        "in declaration order, each once, none after the first denier (pending dials with and without a known peer id); "
        "each constructible FromSwarm event reaches every field "
        "exactly once in order; a handler event wrapped Left(Left)/Left(Right)/Right reaches exactly the matching field "
        "with its payload unchanged; ConnectionHandlerSelect::poll_close (the combined handler the derive builds) under "
        "every readiness schedule of two handlers (symbolic 3-step scripts of Pending / event / done) delivers every "
        "close event once, in order, tagged with its handler, and reports completion only when both are done."),
    bounds="three fields; one callback/event per harness; FromSwarm kinds {NewListener, NewExternalAddrCandidate, ExternalAddrConfirmed, ExternalAddrExpired}; fields contribute no dial addresses; unwind 8",
    outside="contents of the concatenated address list for pending dials (Vec<Multiaddr> concatenation exhausts 40 GB in CBMC even for one address); ConnectionHandlerSelect::poll and on_connection_event routing, ToSwarm event mapping in poll(), FromSwarm events that need a live connection (ConnectionEstablished/Closed, DialFailure, ...), #[behaviour(to_swarm)] variants, generic fields",
    stubs=[TRACING, FMT], assumptions=[FORGET], hooks=[],
)

PROPS["C10"] = dict(
    group="swarm", files=["c10.rs"],
    explanation=(
        "The shutdown-planning kernel of Connection::poll: compute_new_shutdown for every (keep-alive wish, current "
        "shutdown state, idle timeout, clock) combination — keep-alive always cancels a planned shutdown; without it a "
        "zero timeout gives Asap, an armed timer is left untouched, otherwise a timer is armed — and "
        "checked_add_fraction for every (start instant, idle timeout): the armed delay equals the idle timeout whenever "
        "start + timeout is representable, is never longer, and is always representable."),
    bounds="all Instants (secs u64, nanos < 10^9) and Durations; halving loop unwound 97 times (a Duration is < 2^94 ns)",
    outside="WHEN Connection::poll consults the kernel: the four-way idleness condition (no negotiating streams, no requested outbound streams, no active streams not marked ignore_for_keep_alive, handler keep-alive) lives inside Connection::poll over FuturesUnordered/muxer/handler state and is not decided — a change there is not detected; ActiveStreamCounter",
    stubs=[TRACING, WEBTIME, TIMER], assumptions=[], hooks=["hook: libp2p_swarm::verif_hooks::{new_shutdown_kind, idle_delay} (wrappers calling compute_new_shutdown / checked_add_fraction)"],
)

PROPS["C19"] = dict(
    group="wire", files=["c19.rs"], kani_args=FS200,
    explanation=(
        "libp2p_pnet::parse_hex_key (the key-line parser behind PreSharedKey::from_str) on a 64-byte line of hex digits "
        "with a symbolic 4-byte window (start / end; middle and odd offset in thorough) constrained only to valid UTF-8: "
        "never panics; a line of hex digits parses to exactly the bytes it spells; a line that parses is ASCII."),
    bounds="line length 64 bytes; 4 symbolic bytes per instance at offsets {0, 60} (quick) + {30, 31} (thorough), the other 60 bytes are 'a'; unwind 70",
    outside="PreSharedKey::from_str's line splitting and header comparison; Display/to_key_file (format! machinery) and therefore the print->parse round trip; lines of other lengths; the plaintext handshake and pnet stream transparency (XSalsa20 + async I/O)",
    stubs=[TRACING, FMT], assumptions=[FORGET], hooks=["hook: libp2p_pnet::verif_hooks::parse_hex_key (wrapper calling the private function)"],
)


# functions of /repo each property's harnesses call (directly or through the hooks); written
# into the evidence next to the functions CBMC reported checks in
FUNCTIONS = {
    "C10": ["libp2p_swarm::connection::compute_new_shutdown", "libp2p_swarm::connection::checked_add_fraction"],
    "C13": ["libp2p_swarm::translation::_address_translation"],
    "C19": ["libp2p_pnet::parse_hex_key"],
    "C20": ["libp2p_identity::PeerId::from_bytes", "libp2p_identity::PeerId::from_multihash", "libp2p_identity::PeerId::to_bytes",
            "libp2p_identity::ecdsa::PublicKey::try_decode_der", "libp2p_identity::ecdsa::PublicKey::del_asn1_header"],
    "C22": ["libp2p_core::transport::global_only::Transport::dial", "global_only::ipv4_global::is_global", "global_only::ipv6_global::is_global"],
    "C25": ["libp2p_mplex::codec::Codec::decode", "libp2p_mplex::codec::Codec::encode", "libp2p_mplex::codec::RemoteStreamId::into_local"],
    "C31": ["libp2p_gossipsub::protocol::validate_rpc_limits", "prost_codec::consume_message_prefix", "prost_codec::decode_field_tag", "prost_codec::consume_message"],
    "C34": ["libp2p_gossipsub::config::ConfigBuilder::{mesh_n, mesh_n_low, mesh_n_high, mesh_outbound_min, history_length, history_gossip, max_transmit_size, build}",
            "libp2p_gossipsub::config::Config getters"],
    "C37": ["libp2p_kad::kbucket::bucket::KBucket::{new, insert, update, remove, apply_pending, update_pending, remove_pending, status, iter, position}",
            "libp2p_kad::kbucket::entry::{Entry::new, PresentEntry, PendingEntry, AbsentEntry}"],
    "C38": ["libp2p_kad::kbucket::ClosestBucketsIter::{new, next, next_in, next_out}"],
    "C40": ["libp2p_kad::kbucket::key::KeyBytes::{distance, for_distance}", "libp2p_kad::kbucket::key::Distance::ilog2",
            "libp2p_kad::kbucket::BucketIndex::{new, range}", "U256 ordering / arithmetic"],
    "C42": ["libp2p_kad::protocol::record_to_proto", "libp2p_kad::protocol::record_from_proto",
            "libp2p_kad::behaviour::earliest_expiry", "libp2p_kad::behaviour::exp_decrease"],
    "C56": ["libp2p_webrtc_utils::stream::state::State::{handle_inbound_flag, read_barrier, write_barrier, close_read_barrier, close_write_barrier, close_read_message_sent, close_write_message_sent, read_closed, write_closed, read_flags_in_async_write}"],
    "C57": ["prost_codec::Codec::decode", "prost_codec::Codec::encode"],
    "C58": ["code generated by libp2p_swarm_derive::NetworkBehaviour: handle_pending_inbound_connection, handle_established_inbound_connection, handle_pending_outbound_connection, handle_established_outbound_connection, on_swarm_event, on_connection_handler_event"],
}

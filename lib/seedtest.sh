#!/bin/sh
# lib/seedtest.sh <PROP> <patch.diff> [tier] : run ./check PROP against a scratch worktree of
# /repo (current HEAD) with the patch applied; never touches /repo's working tree.
# Prints the tail of the check output and "SEEDTEST <PROP> <patch> exit=<n>".
set -u
prop=$1; patch=$(readlink -f "$2"); tier=${3:-quick}
name=$(echo "$patch" | md5sum | cut -c1-10)
wt=/tmp/vw/$name
mkdir -p /tmp/vw
git -C /repo worktree remove --force "$wt" 2>/dev/null
git -C /repo worktree add -q --detach "$wt" HEAD || exit 3
if ! git -C "$wt" apply "$patch"; then echo "SEEDTEST $prop $patch exit=patch-does-not-apply"; git -C /repo worktree remove --force "$wt"; exit 3; fi
cd /verif
VERIF_REPO=$wt ./check "$prop" --tier "$tier" > "/tmp/vw/$name.log" 2>&1
rc=$?
grep -E 'VIOLATION|KNOWN|INCONCLUSIVE|harness=|tier=| pass | fail ' "/tmp/vw/$name.log" | cut -c1-300 | tail -25
echo "SEEDTEST $prop $patch exit=$rc"
alt=/verif/.target/alt/$(echo "$wt" | sed 's#^/##; s#/#_#g')
if [ -d "$alt/replays" ]; then mkdir -p "/tmp/vw/keep/$name"; cp -r "$alt/replays" "$alt/evidence" "/tmp/vw/keep/$name/" 2>/dev/null; fi
rm -rf "$alt"
git -C /repo worktree remove --force "$wt"
exit $rc

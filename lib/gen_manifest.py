#!/usr/bin/env python3
"""Regenerate /verif/MANIFEST.json from lib/registry.py (claimed checks = registry.PROPS
whose harness source exists; everything else goes under not_applicable with a reason)."""
import json, os, subprocess, sys
VERIF = os.path.dirname(os.path.dirname(os.path.abspath(__file__)))
sys.path.insert(0, os.path.join(VERIF, "lib"))
import registry

ids = [json.loads(l)["id"] for l in open(os.path.join(VERIF, "properties.jsonl"))]
checks, na = [], []
for pid in ids:
    spec = registry.PROPS.get(pid)
    if spec and all(os.path.exists(os.path.join(VERIF, "harness", spec["group"], "src", f)) for f in spec["files"]) and not spec.get("disabled"):
        checks.append(dict(
            property_id=pid,
            quick_cmd="./check %s --tier quick" % pid,
            thorough_cmd="./check %s --tier thorough" % pid,
            evidence_file="evidence/%s.json" % pid,
            replay_cmd_template="./check --replay {path}",
            engine="kani-cbmc",
            level_claimed=dict(
                category="other",
                text=("Bounded symbolic verification of the real code: #[kani::proof] harnesses call the /repo "
                      "functions compiled from the current tree with kani::any() inputs; CBMC+CaDiCaL decides "
                      "every assertion for all input values within the stated bounds (unwinding assertions on, "
                      "reachability witnesses required). Not a proof (bounded) and not a model (no model). "
                      + spec.get("level_text", "")),
                design_ref="DESIGN.md section 6, " + pid),
            level_note=("Trusted: kani 0.68/CBMC 6.11/CaDiCaL, the harness oracle, stubs: "
                        + "; ".join(spec.get("stubs", []) + spec.get("assumptions", []))
                        + ". Bounds: " + spec.get("bounds", "") + ". Outside the claim: " + spec.get("outside", "")),
            technique="SAT-based bounded model checking of the real Rust code (Kani -> CBMC -> CaDiCaL), symbolic inputs, native replay of counterexamples",
        ))
    else:
        reason = registry.NA.get(pid) or (spec or {}).get("na_reason") or "planned in DESIGN.md section 6 but the harness is not built/validated yet; not claimed"
        na.append(dict(property_id=pid, reason=reason))

hooks_commits = []
try:
    out = subprocess.check_output(["git", "-C", "/repo", "log", "--format=%H %s"], text=True)
    hooks_commits = [l.split()[0] for l in out.splitlines() if l.split(" ", 1)[1].startswith("verif-hook:")]
except Exception:
    pass
man = dict(
    version=1,
    setup_cmd="./setup.sh",
    hooks=dict(
        guard="--cfg libp2p_verif",
        enable="RUSTFLAGS='--cfg libp2p_verif --cfg sha2_backend=\"soft\"' (set by ./check for every cargo kani invocation; hooks are `#[cfg(libp2p_verif)] pub mod verif_hooks` wrappers that call private items)",
        baseline_off_cmd="cd /repo && cargo nextest run --workspace --no-fail-fast --tool-config-file pb:/w/lib/nextest.toml --profile pb --test-threads 8 --offline || cargo test --workspace --no-fail-fast --offline",
        source_commits=hooks_commits,
        add_only=True),
    engines=[dict(name="kani-cbmc", path="/verif/check", serves_properties=[c["property_id"] for c in checks],
                  kind_free_text="Kani 0.68 (kani-compiler MIR->goto-program) + CBMC 6.11 bounded model checker + CaDiCaL SAT solver; harness crates under /verif/harness/* with path dependencies on /repo; driver lib/vcheck.py; native replay lib/replay.py")],
    checks=checks,
    notes="All checks: exit 0 = every harness decided 'holds within bounds'; exit 1 = VIOLATION replayed natively; exit 2 = inconclusive (timeout/OOM/unwinding bound/vacuity/build failure). known_findings.txt lists recorded defects. See DESIGN.md.",
    not_applicable=na,
)
json.dump(man, open(os.path.join(VERIF, "MANIFEST.json"), "w"), indent=1)
print("claimed:", [c["property_id"] for c in checks])
print("n/a:", len(na))

#!/bin/sh
# lib/seedqueue.sh <jobs-file> : lines "PROP patch.diff [tier]"; runs them sequentially.
while read -r prop patch tier; do
  [ -z "$prop" ] && continue
  out=/tmp/vw/result-$prop-$(echo "$patch" | md5sum | cut -c1-6).out
  /verif/lib/seedtest.sh "$prop" "$patch" ${tier:-quick} > "$out" 2>&1
done < "$1"

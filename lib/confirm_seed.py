#!/usr/bin/env python3
"""lib/confirm_seed.py <seed-out-dir> <X> : independently confirm a seeded change
(<dir>/<X>/{patch.diff,demo.diff,meta.json}) in a scratch worktree of /repo HEAD:
demo passes clean, demo fails with the patch, existing tests of the named crates pass with
the patch.  On success copies it to /verif/seeded/<prop>-<X>/ with a 'confirmed' record."""
import json, os, subprocess, sys, shutil, time, re
d, x = sys.argv[1].rstrip('/'), sys.argv[2]
sd = os.path.join(d, x)
meta = json.load(open(os.path.join(sd, 'meta.json')))
prop = meta['property']
wt = '/tmp/vw/confirm-%s-%s%s' % (prop, 'r2' if d.endswith('r2.out') else '', x)
env = dict(os.environ, CARGO_NET_OFFLINE='true', CARGO_TARGET_DIR='/tmp/vw/confirm-target')
def sh(cmd, cwd=wt, timeout=5400):
    p = subprocess.run(cmd, shell=True, cwd=cwd, env=env, stdout=subprocess.PIPE, stderr=subprocess.STDOUT, text=True, timeout=timeout)
    return p.returncode, p.stdout
subprocess.run(['git', '-C', '/repo', 'worktree', 'remove', '--force', wt], capture_output=True)
base = 'HEAD'
for cand in ['HEAD', '66dce20', 'c50f64c']:
    subprocess.run(['git', '-C', '/repo', 'worktree', 'remove', '--force', wt], capture_output=True)
    subprocess.check_call(['git', '-C', '/repo', 'worktree', 'add', '-q', '--detach', wt, cand])
    ok = all(subprocess.run(['git', '-C', wt, 'apply', '--check', os.path.join(sd, f)], capture_output=True).returncode == 0 for f in ('demo.diff', 'patch.diff'))
    if ok:
        base = cand
        break
rec = dict(seed=sd, repo_commit_used=subprocess.check_output(['git', '-C', wt, 'rev-parse', 'HEAD'], text=True).strip(), base=base)
try:
    rc, out = sh('git apply %s' % os.path.join(sd, 'demo.diff'))
    assert rc == 0, 'demo.diff does not apply: ' + out
    demo_cmd = meta['demo_cmd']
    demo_cmd = re.sub(r'cd /tmp/seed/\w+\s*&&\s*', '', demo_cmd)
    demo_cmd = re.sub(r'^git apply \S+\s*&&\s*', '', demo_cmd)
    demo_cmd = re.split(r'\s{2,}\(|\s+#|;\s', demo_cmd)[0].strip()
    if '--offline' not in demo_cmd:
        demo_cmd = demo_cmd.replace('cargo test', 'cargo test --offline')
    rc1, out1 = sh(demo_cmd)
    rec['demo_clean'] = 'pass' if rc1 == 0 else 'FAIL'
    rc, out = sh('git apply %s' % os.path.join(sd, 'patch.diff'))
    assert rc == 0, 'patch.diff does not apply: ' + out
    rc2, out2 = sh(demo_cmd)
    rec['demo_patched'] = 'fail' if rc2 != 0 else 'PASS'
    rec['demo_patched_tail'] = out2[-600:]
    # existing tests with the patch (demo removed)
    sh('git apply -R %s' % os.path.join(sd, 'demo.diff'))
    ex = meta.get('existing_tests_cmd') or ' && '.join('cargo test --offline -p %s -j 6' % c for c in meta['crates_tested'])
    ex = re.sub(r'cd /tmp/seed/\w+\s*&&\s*', '', ex)
    ex = re.split(r'\s{2,}\(|\s+#|;\s', ex)[0].strip()
    rc3, out3 = sh(ex)
    if rc3 != 0:  # timing-flaky tests: one retry
        rc3, out3 = sh(ex)
    rec['existing_tests_with_patch'] = 'pass' if rc3 == 0 else 'FAIL'
    rec['existing_tests_tail'] = '\n'.join(l for l in out3.splitlines() if 'test result' in l or 'FAILED' in l)[-800:]
    rec['demo_cmd'] = demo_cmd
    rec['existing_cmd'] = ex
    rec['confirmed'] = rec['demo_clean'] == 'pass' and rec['demo_patched'] == 'fail' and rec['existing_tests_with_patch'] == 'pass'
except Exception as e:
    rec['confirmed'] = False
    rec['error'] = str(e)[:500]
finally:
    subprocess.run(['git', '-C', '/repo', 'worktree', 'remove', '--force', wt], capture_output=True)
rnd = 'r2' if d.endswith('r2.out') else ''
out_dir = '/verif/seeded/%s-%s%s' % (prop, rnd, x)
if rec['confirmed']:
    os.makedirs(out_dir, exist_ok=True)
    shutil.copy(os.path.join(sd, 'patch.diff'), out_dir)
    shutil.copy(os.path.join(sd, 'demo.diff'), out_dir)
    m = dict(meta)
    m['breaks_property'] = prop
    m['confirmed_by_me'] = rec
    json.dump(m, open(os.path.join(out_dir, 'meta.json'), 'w'), indent=1)
print(json.dumps(dict(prop=prop, x=x, confirmed=rec['confirmed'], demo_clean=rec.get('demo_clean'), demo_patched=rec.get('demo_patched'), existing=rec.get('existing_tests_with_patch'), error=rec.get('error'))))

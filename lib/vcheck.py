#!/usr/bin/env python3
"""Driver for the solver-based checks (see /verif/DESIGN.md section 2.4).

    ./check <ID> [--tier quick|thorough] [--only <substr>] [--keep-logs]
    ./check --replay <path>

For one property: build the Kani harness crate of its group against /repo's current
working tree (features select the property's harness module and the tier), run every
harness as its own `cargo kani --harness` process (bounded model checking by
CBMC/CaDiCaL), classify the verdicts, replay counterexamples natively, write
evidence/<ID>.json, and exit 0 / 1 (VIOLATION) / 2 (inconclusive).
"""
import concurrent.futures as cf
import json
import os
import re
import resource
import shutil
import signal
import subprocess
import sys
import time

VERIF = os.path.dirname(os.path.dirname(os.path.abspath(__file__)))
sys.path.insert(0, os.path.join(VERIF, "lib"))
import registry  # noqa: E402

# VERIF_REPO (default /repo): the rust-libp2p tree to check.  Registered checks always use
# /repo; a different tree (a scratch worktree with a seeded change) gets its own generated
# copy of the harness crates (path dependencies rewritten), target dir, evidence and
# replay dirs under .target/alt/<name>/ so that it never disturbs checks of /repo.
REPO = os.path.abspath(os.environ.get("VERIF_REPO", "/repo"))
ALT = None if REPO == "/repo" else os.path.join(VERIF, ".target", "alt", REPO.strip("/").replace("/", "_"))
TARGET = os.path.join(ALT, "target") if ALT else os.path.join(VERIF, ".target")
LOGS = os.path.join(TARGET, "logs")
HARNESS = os.path.join(ALT, "harness") if ALT else os.path.join(VERIF, "harness")
EVIDENCE = os.path.join(ALT, "evidence") if ALT else os.path.join(VERIF, "evidence")
REPLAYS = os.path.join(ALT, "replays") if ALT else os.path.join(VERIF, "replays")


def materialize(group):
    """For VERIF_REPO != /repo: copy harness/<group> with /repo/ rewritten in Cargo.toml."""
    if not ALT:
        return
    src = os.path.join(VERIF, "harness", group)
    dst = os.path.join(HARNESS, group)
    os.makedirs(dst, exist_ok=True)
    shutil.rmtree(os.path.join(dst, "src"), ignore_errors=True)
    shutil.copytree(os.path.join(src, "src"), os.path.join(dst, "src"))
    man = open(os.path.join(src, "Cargo.toml")).read().replace('"/repo/', '"%s/' % REPO)
    open(os.path.join(dst, "Cargo.toml"), "w").write(man)
    if not os.path.exists(os.path.join(dst, "Cargo.lock")):
        shutil.copy(os.path.join(src, "Cargo.lock"), os.path.join(dst, "Cargo.lock"))
RUSTFLAGS = '--cfg libp2p_verif --cfg sha2_backend="soft"'

TIER_CAPS = {
    # per-harness wall-clock cap (s), address-space cap (GiB), parallel workers
    "quick": dict(timeout=1800, mem_gib=20, workers=8),
    "thorough": dict(timeout=3600, mem_gib=32, workers=6),
}


def env():
    e = dict(os.environ)
    e["CARGO_NET_OFFLINE"] = "true"
    e["RUSTFLAGS"] = RUSTFLAGS
    e.pop("RUSTUP_TOOLCHAIN", None)
    return e


def sync_lock(group):
    """The harness crate's committed Cargo.lock was generated from /repo/Cargo.lock (same
    dependency versions as the repository's own build) plus the harness package and the
    shim entries; if it is missing it is re-seeded from /repo/Cargo.lock."""
    materialize(group)
    dst = os.path.join(HARNESS, group, "Cargo.lock")
    if not os.path.exists(dst):
        shutil.copy(os.path.join(REPO, "Cargo.lock"), dst)


MODULE_OF = {}


GROUP_OF = {}


def parts_of(spec):
    """(group, files) pairs a property's harnesses live in (usually one)."""
    return [(spec["group"], spec["files"])] + list(spec.get("extra_groups", []))


def harness_names(prop, tier):
    """Harness functions are found by name in the property's source files:
    <id>_q_* run in both tiers, <id>_t_* only in the thorough tier."""
    spec = registry.PROPS[prop]
    pid = prop.lower()
    names = []
    for group, files in parts_of(spec):
      for f in files:
        text = open(os.path.join(VERIF, "harness", group, "src", f)).read()
        text = re.sub(r"//[^\n]*", "", text)  # names mentioned in comments are not harnesses
        for m in re.finditer(r"\b(%s_[qt]_\w+)\b" % pid, text):
            n = m.group(1)
            if n not in names:
                names.append(n)
                MODULE_OF[n] = f[:-3].replace("/", "::")
                GROUP_OF[n] = group
    if tier == "quick":
        names = [n for n in names if n.startswith(pid + "_q_")]
    return names


EXTRA_KANI_ARGS = []


def cargo_kani_base(group, feats, extra=True):
    return [
        "cargo", "kani",
        "--target-dir", os.path.join(TARGET, group),
        "-Z", "stubbing",
        "--features", ",".join(feats),
    ] + (EXTRA_KANI_ARGS if extra else [])


def limit(mem_gib):
    def f():
        b = mem_gib << 30
        resource.setrlimit(resource.RLIMIT_AS, (b, b))
        os.setsid()
    return f


def run_harness(group, feats, name, caps, logdir, extra=()):
    """Run one harness; returns a result dict."""
    # --cbmc-args swallows everything after it: per-property extra args go last
    cmd = cargo_kani_base(group, feats, extra=False) + ["--harness", MODULE_OF.get(name, "") + "::" + name, "--exact"] + list(extra) + EXTRA_KANI_ARGS
    log = os.path.join(logdir, name + ".log")
    t0 = time.time()
    status = None
    with open(log, "w") as out:
        p = subprocess.Popen(cmd, cwd=os.path.join(HARNESS, group), env=env(),
                             stdout=out, stderr=subprocess.STDOUT,
                             preexec_fn=limit(caps["mem_gib"]))
        try:
            p.wait(timeout=caps["timeout"])
            status = p.returncode
        except subprocess.TimeoutExpired:
            try:
                os.killpg(p.pid, signal.SIGKILL)
            except ProcessLookupError:
                pass
            p.wait()
            status = "timeout"
    wall = time.time() - t0
    r = parse_log(log)
    r.update(name=name, full_name=MODULE_OF.get(name, "") + "::" + name, wall_s=round(wall, 1), exit=status, log=log, cmd=" ".join(cmd))
    if status == "timeout":
        r["verdict"] = "inconclusive"
        r["why"] = "timeout after %ds" % caps["timeout"]
    elif r["verdict"] in ("pass", "fail") and r.get("n_harnesses") != 1:
        r["verdict"] = "inconclusive"
        r["why"] = "harness name matched %s harnesses (must be exactly 1)" % r.get("n_harnesses")
    return r


CHECK_RE = re.compile(
    r"^Check (\d+): ([^\n]+)\n\t - Status: (\w+)\n\t - Description: \"(.*)\"\n\t - Location: (.*)$",
    re.M)


def parse_log(path):
    text = open(path, errors="replace").read()
    r = dict(checks=0, failed=[], covers=[], unwinding_failed=False, solver_s=None,
             repo_functions=[], verdict="inconclusive", why="")
    funcs = set()
    nchecks = 0
    for m in CHECK_RE.finditer(text):
        _, cname, status, desc, loc = m.groups()
        nchecks += 1
        lm = re.match(r"(\S+?):(\d+)(?::\d+)? in function (.*)$", loc)
        if lm:
            fpath = lm.group(1)
            if "/repo/" in fpath or fpath.startswith("../../../repo/"):
                funcs.add(lm.group(3))
        if ".cover." in cname or status in ("SATISFIED", "UNSATISFIABLE"):
            r["covers"].append(dict(desc=desc, status=status, loc=loc))
        elif status == "FAILURE":
            if "unwinding assertion" in desc:
                r["unwinding_failed"] = True
            r["failed"].append(dict(check=cname, desc=desc, loc=loc))
    r["checks"] = nchecks
    r["repo_functions"] = sorted(funcs)
    ms = re.findall(r"Runtime Solver: ([0-9.e+-]+)s", text)
    md = re.findall(r"Runtime decision procedure: ([0-9.e+-]+)s", text)
    if md:
        r["solver_s"] = round(sum(float(x) for x in md), 2)
    elif ms:
        r["solver_s"] = round(sum(float(x) for x in ms), 2)
    mv = re.search(r"Verification Time: ([0-9.]+)s", text)
    if mv:
        r["verification_s"] = round(float(mv.group(1)), 1)
    mt = re.search(r"Complete - \d+ successfully verified harnesses, \d+ failures, (\d+) total", text)
    if mt:
        r["n_harnesses"] = int(mt.group(1))
    mvars = re.search(r"(\d+) variables, (\d+) clauses", text)
    if mvars:
        r["sat_variables"], r["sat_clauses"] = int(mvars.group(1)), int(mvars.group(2))
    if "VERIFICATION:- SUCCESSFUL" in text:
        bad_cov = [c for c in r["covers"] if c["status"] != "SATISFIED"]
        if bad_cov:
            r["verdict"] = "vacuous"
            r["why"] = "reachability witness not satisfied: " + "; ".join(
                "%s (%s)" % (c["desc"], c["status"]) for c in bad_cov)
        else:
            r["verdict"] = "pass"
    elif "VERIFICATION:- FAILED" in text:
        real = [f for f in r["failed"] if "unwinding assertion" not in f["desc"]]
        if r["unwinding_failed"]:
            r["verdict"] = "inconclusive"
            r["why"] = "unwinding assertion failed: bound too small"
        elif real:
            r["verdict"] = "fail"
        else:
            r["verdict"] = "inconclusive"
            nerr = len(re.findall(r"- Status: ERROR", text))
            tail = text.strip().splitlines()[-15:]
            if nerr:
                r["why"] = "%d checks ended with Status: ERROR (solver gave up: memory cap?)" % nerr
            else:
                r["why"] = "FAILED without a failed check (CBMC error/OOM?): " + " | ".join(tail)[-600:]
    else:
        tail = text.strip().splitlines()[-12:]
        r["why"] = "no verdict in kani output: " + " | ".join(tail)[-800:]
    return r


def load_known():
    """known_findings.txt: lines
         known: property=<id> harness=<name> check="<description substring>" :: <what fails>
         fixed: property=<id> <commit> <what failed>
    Only `known:` lines suppress, and only the exact (harness, failed-check) pair."""
    out = []
    p = os.path.join(VERIF, "known_findings.txt")
    if not os.path.exists(p):
        return out
    for line in open(p):
        line = line.strip()
        m = re.match(r'known:\s+property=(\S+)\s+harness=(\S+)\s+check="([^"]*)"\s*::\s*(.*)$', line)
        if m:
            out.append(dict(prop=m.group(1), harness=m.group(2), check=m.group(3), what=m.group(4)))
    return out


def replay(prop, group, feats, res, caps, logdir):
    """Replay a counterexample natively (DESIGN 2: replay before reporting).
    1. re-run the failing harness with concrete playback to obtain the concrete values
       as a unit test; 2. run that test natively (real tracing, dev + release profile)
       in replay/<group>; the failure must reproduce (the harness's assert! panics)."""
    import replay as rp
    return rp.replay_harness(prop, group, feats, res, caps, logdir, env(), cargo_kani_base, HARNESS, TARGET, REPLAYS)


def main(argv):
    import argparse
    ap = argparse.ArgumentParser()
    ap.add_argument("prop", nargs="?")
    ap.add_argument("--tier", default=os.environ.get("VERIF_TIER", "quick"),
                    choices=["quick", "thorough"])
    ap.add_argument("--only", default=None, help="run only harnesses whose name contains this")
    ap.add_argument("--replay", default=None, help="re-run a recorded replay test")
    ap.add_argument("--workers", type=int, default=None)
    ap.add_argument("--mem", type=int, default=None, help="address-space cap per harness in GiB")
    ap.add_argument("--timeout", type=int, default=None, help="wall-clock cap per harness in s")
    ap.add_argument("--list", action="store_true")
    a = ap.parse_args(argv)

    if a.replay:
        import replay as rp
        return rp.rerun(a.replay, env(), HARNESS, TARGET)
    prop = a.prop
    if prop not in registry.PROPS:
        print("unknown or unclaimed property", prop)
        return 2
    spec = registry.PROPS[prop]
    group = spec["group"]
    tier = a.tier
    # per-property extra kani/CBMC options (e.g. a larger field-sensitivity array size so that
    # concrete arrays > 64 elements keep their contents concrete during symbolic execution)
    EXTRA_KANI_ARGS[:] = spec.get("kani_args", [])
    caps = dict(TIER_CAPS[tier])
    caps.update(spec.get("caps", {}).get(tier, {}))
    if a.workers:
        caps["workers"] = a.workers
    if a.mem:
        caps["mem_gib"] = a.mem
    if a.timeout:
        caps["timeout"] = a.timeout
    seed = int(os.environ.get("VERIF_SEED", "0") or 0)
    feats = [prop.lower()] + (["thorough"] if tier == "thorough" else [])
    names = harness_names(prop, tier)
    if a.only:
        names = [n for n in names if a.only in n]
    if a.list:
        print("\n".join(names))
        return 0
    # VERIF_SEED only permutes scheduling order (the technique has no random choices)
    if seed:
        import random
        random.Random(seed).shuffle(names)
    logdir = os.path.join(LOGS, prop, tier)
    shutil.rmtree(logdir, ignore_errors=True)
    os.makedirs(logdir, exist_ok=True)
    t0 = time.time()

    # 1. compile + codegen every harness of this property from /repo's current tree
    rc = 0
    for g in sorted({GROUP_OF[n] for n in names} or {group}):
        sync_lock(g)
        cg_cmd = cargo_kani_base(g, feats, extra=False) + ["--only-codegen"]
        cg_log = os.path.join(logdir, "_codegen_%s.log" % g)
        with open(cg_log, "w") as out:
            rc = subprocess.call(cg_cmd, cwd=os.path.join(HARNESS, g), env=env(),
                                 stdout=out, stderr=subprocess.STDOUT)
        if rc != 0:
            break
    codegen_s = round(time.time() - t0, 1)
    results = []
    if rc != 0:
        tail = open(cg_log, errors="replace").read().strip().splitlines()[-40:]
        print("\n".join(tail))
        print("INCONCLUSIVE property=%s: harness crate does not build against /repo (see %s)" % (prop, cg_log))
        write_evidence(prop, spec, tier, seed, [], time.time() - t0, codegen_s, 0, [],
                       note="build failed: " + " | ".join(tail)[-500:])
        return 2

    # 2. one CBMC run per harness, in parallel
    with cf.ThreadPoolExecutor(max_workers=caps["workers"]) as ex:
        futs = {ex.submit(run_harness, GROUP_OF.get(n, group), feats, n, caps, logdir): n for n in names}
        for fu in cf.as_completed(futs):
            r = fu.result()
            results.append(r)
            print("  %-48s %-12s checks=%-6d solver=%ss wall=%ss %s" % (
                r["name"], r["verdict"], r["checks"], r.get("solver_s"), r["wall_s"], r["why"][:200]),
                flush=True)
    results.sort(key=lambda r: names.index(r["name"]))

    # 3. classify
    known = load_known()
    violations, known_hits, inconclusive = [], [], []
    for r in results:
        if r["verdict"] == "pass":
            continue
        if r["verdict"] == "fail":
            unlisted = []
            for f in r["failed"]:
                k = [k for k in known if k["prop"] == prop and k["harness"] == r["name"]
                     and k["check"] and k["check"] in f["desc"]]
                if k:
                    known_hits.append((r, f, k[0]))
                else:
                    unlisted.append(f)
            if unlisted:
                r["unlisted_failed"] = unlisted
                violations.append(r)
        else:
            inconclusive.append(r)

    # 4. replay unlisted failures natively before reporting
    exit_code = 0
    nviol = 0
    # at most MAX_REPLAYS counterexamples are replayed (in parallel); further failing
    # harnesses are listed but not reported as separate VIOLATION lines
    MAX_REPLAYS = 4
    to_replay, rest = violations[:MAX_REPLAYS], violations[MAX_REPLAYS:]
    with cf.ThreadPoolExecutor(max_workers=MAX_REPLAYS) as ex:
        rps = list(ex.map(lambda r: replay(prop, GROUP_OF.get(r["name"], group), feats, r, caps, logdir), to_replay))
    for r, rp in zip(to_replay, rps):
        r["replay"] = rp
        if rp.get("reproduced"):
            nviol += 1
            print("VIOLATION property=%s replay=%s" % (prop, rp["path"]))
            for f in r["unlisted_failed"][:6]:
                print("   harness=%s failed: %s @ %s" % (r["name"], f["desc"], f["loc"]))
            exit_code = 1
        else:
            print("INCONCLUSIVE property=%s harness=%s: solver counterexample did not reproduce natively (%s)"
                  % (prop, r["name"], rp.get("why", "")))
            inconclusive.append(r)
    for r in rest:
        print("   also failing (not replayed, replay cap %d): harness=%s failed: %s" % (
            MAX_REPLAYS, r["name"], "; ".join(f["desc"] for f in r["unlisted_failed"][:3])))
        if exit_code == 0:
            inconclusive.append(r)
    seen = set()
    for r, f, k in known_hits:
        key = (k["harness"], k["check"])
        if key in seen:
            continue
        seen.add(key)
        print("KNOWN-FINDING: property=%s %s [harness=%s check=%s]" % (prop, k["what"], k["harness"], k["check"]))
    for r in inconclusive:
        print("INCONCLUSIVE property=%s harness=%s: %s (log %s)" % (prop, r["name"], r["why"][:400], r["log"]))
    if exit_code == 0 and inconclusive:
        exit_code = 2
    if not names:
        print("INCONCLUSIVE property=%s: no harness selected" % prop)
        exit_code = 2
    wall = time.time() - t0
    write_evidence(prop, spec, tier, seed, results, wall, codegen_s, nviol,
                   [k for _, _, k in known_hits])
    print("%s tier=%s harnesses=%d pass=%d known=%d violations=%d inconclusive=%d wall=%.0fs -> exit %d" % (
        prop, tier, len(results), sum(r["verdict"] == "pass" for r in results), len(seen), nviol,
        len(inconclusive), wall, exit_code))
    return exit_code


def write_evidence(prop, spec, tier, seed, results, wall, codegen_s, nviol, known_hits, note=""):
    passed = [r for r in results if r["verdict"] == "pass"]
    witnessed = [r for r in passed if r["covers"]]
    funcs = sorted({f for r in results for f in r["repo_functions"]})
    samples = []
    for r in results:
        samples.append(dict(
            harness=r["name"], verdict=r["verdict"], cbmc_checks=r["checks"],
            solver_s=r.get("solver_s"), verification_s=r.get("verification_s"), wall_s=r["wall_s"],
            sat_variables=r.get("sat_variables"), sat_clauses=r.get("sat_clauses"),
            bounds=registry.harness_bounds(prop, r["name"]),
            witnesses=[dict(cover=c["desc"], status=c["status"]) for c in r["covers"]],
            failed_checks=[dict(desc=f["desc"], loc=f["loc"]) for f in r["failed"]][:10],
            why=r["why"][:300],
            replay=r.get("replay"),
        ))
    ev = dict(
        property_id=prop, tier=tier, seed=seed, level="other",
        coverage=dict(
            explanation=(spec["explanation"] + " || Verdict semantics: each harness is a "
                         "bounded-model-checking query over the real /repo code compiled by "
                         "kani-compiler from the current working tree; 'pass' = CBMC/CaDiCaL "
                         "found the negated assertions unsatisfiable for every value of the "
                         "symbolic inputs within the stated bounds with unwinding assertions "
                         "on; nothing is claimed outside those bounds." + (" || " + note if note else "")),
            bounds=spec.get("bounds", ""),
            outside_claim=spec.get("outside", ""),
            obligations=len(results),
            discharged=len(passed),
            checker_cmd="cargo kani --target-dir /verif/.target/%s -Z stubbing --features %s --harness <H> --exact"
                        % (spec["group"], prop.lower() + (",thorough" if tier == "thorough" else "")),
            trusted_base=["kani 0.68.0 (kani-compiler MIR->goto)", "CBMC 6.11.0", "CaDiCaL (SAT back end)",
                          "harness oracles in /verif/harness/%s/src/%s" % (spec["group"], spec["files"][0])]
                         + spec.get("stubs", []) + spec.get("hooks", []),
            evaluations=len(results),
            distinct_nontrivial=len(witnessed),
            rule="one evaluation = one harness instance (one SAT query set over all values of its "
                 "symbolic inputs); non-trivial = verdict pass AND every kani::cover! reachability "
                 "witness in it came back SATISFIED (so the assertions were reached with satisfiable assumptions)",
            cbmc_checks_total=sum(r["checks"] for r in results),
            solver_time_s=round(sum((r.get("solver_s") or 0) for r in results), 1),
            codegen_s=codegen_s,
            functions_targeted=registry.FUNCTIONS.get(prop, []),
            functions_encoded=funcs[:400],
            functions_encoded_count=len(funcs),
            functions_encoded_note="functions_encoded = functions in /repo source files in which CBMC reported at least one check; functions_targeted = the entry points the harnesses call",
            known_findings_hit=[k["what"] for k in known_hits],
            samples=samples,
            exhaustive=False,
        ),
        assumptions=spec.get("assumptions", []) + spec.get("stubs", []),
        wall_s=round(wall, 1),
        violations=nviol,
    )
    os.makedirs(EVIDENCE, exist_ok=True)
    with open(os.path.join(EVIDENCE, prop + ".json"), "w") as f:
        json.dump(ev, f, indent=1)


if __name__ == "__main__":
    sys.exit(main(sys.argv[1:]))

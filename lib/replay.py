"""Native replay of solver counterexamples (DESIGN.md 1 / 8.4).

A failing harness is re-run with Kani's concrete playback to obtain the solver's
assignment as a unit test (`kani::concrete_playback_run(values, harness)`); the test is
stored under /verif/replays/<prop>/<harness>.rs and executed natively by
`cargo kani playback` in a replay crate generated from the harness crate's manifest with
the no-op `tracing` shim REMOVED (real tracing; the clock shims stay where a harness
drives time, because the counterexample's instants are values of that clock).  Only a
counterexample whose native run panics in the dev profile is reported as a VIOLATION;
the release-like profile (opt-level 3, no debug/overflow assertions) is run too and its
outcome recorded.
"""
import os
import re
import shutil
import subprocess
import time

VERIF = os.path.dirname(os.path.dirname(os.path.abspath(__file__)))

TEST_RE = re.compile(
    r"((?:///[^\n]*\n)+\n*#\[test\]\nfn (kani_concrete_playback_\w+)\(\) \{\n.*?\n\})", re.S)


def make_replay_crate(group, HARNESS, TARGET):
    src = os.path.join(HARNESS, group)
    dst = os.path.join(TARGET, "replay", group)
    os.makedirs(dst, exist_ok=True)
    man = open(os.path.join(src, "Cargo.toml")).read()
    man = "\n".join(l for l in man.splitlines()
                    if not re.match(r"\s*tracing(-attributes)?\s*=\s*\{\s*path", l)) + "\n"
    man = man.replace('name = "vh-%s"' % group, 'name = "vr-%s"' % group)
    man = man.replace("[workspace]", '[lib]\npath = "%s/src/lib.rs"\n\n[workspace]' % src, 1)
    cur = open(os.path.join(dst, "Cargo.toml")).read() if os.path.exists(os.path.join(dst, "Cargo.toml")) else ""
    if cur != man:
        open(os.path.join(dst, "Cargo.toml"), "w").write(man)
    if not os.path.exists(os.path.join(dst, "Cargo.lock")):
        shutil.copy(os.path.join(src, "Cargo.lock"), os.path.join(dst, "Cargo.lock"))
    return dst


def run_native(group, feats, path, env, release, HARNESS, TARGET):
    crate = make_replay_crate(group, HARNESS, TARGET)
    e = dict(env)
    e["RUSTFLAGS"] = e.get("RUSTFLAGS", "") + " --cfg verif_replay"
    e["VERIF_REPLAY_FILE"] = path
    e["CARGO_TARGET_DIR"] = os.path.join(TARGET, "replay", group, "target-rel" if release else "target")
    if release:
        e["CARGO_PROFILE_DEV_OPT_LEVEL"] = "3"
        e["CARGO_PROFILE_DEV_DEBUG_ASSERTIONS"] = "false"
        e["CARGO_PROFILE_DEV_OVERFLOW_CHECKS"] = "false"
        e["CARGO_PROFILE_TEST_OPT_LEVEL"] = "3"
        e["CARGO_PROFILE_TEST_DEBUG_ASSERTIONS"] = "false"
        e["CARGO_PROFILE_TEST_OVERFLOW_CHECKS"] = "false"
    feats = [f for f in feats]
    cmd = ["cargo", "kani", "playback", "-Z", "concrete-playback", "--features", ",".join(feats),
           "--", "kani_concrete_playback", "--test-threads", "1"]
    p = subprocess.run(cmd, cwd=crate, env=e, stdout=subprocess.PIPE, stderr=subprocess.STDOUT,
                       text=True, timeout=3600)
    out = p.stdout
    m = re.search(r"test result: (\w+)\. (\d+) passed; (\d+) failed", out)
    if not m:
        return dict(ran=False, out=out[-3000:])
    return dict(ran=True, passed=int(m.group(2)), failed=int(m.group(3)),
                panics=re.findall(r"panicked at ([^\n]*\n[^\n]*)", out)[:6], out=out[-3000:])


def replay_harness(prop, group, feats, res, caps, logdir, env, cargo_kani_base, HARNESS, TARGET, REPLAYS):
    name = res["name"]
    full = res.get("full_name", name)
    t0 = time.time()
    base = cargo_kani_base(group, feats, extra=False)
    tail = cargo_kani_base(group, feats)[len(base):]  # per-property extra args (--cbmc-args last)
    cmd = base + ["--harness", full, "--exact", "-Z", "concrete-playback", "--concrete-playback=print"] + tail
    log = os.path.join(logdir, name + ".playback.log")
    with open(log, "w") as out:
        try:
            subprocess.run(cmd, cwd=os.path.join(HARNESS, group), env=env, stdout=out,
                           stderr=subprocess.STDOUT, timeout=max(3 * caps["timeout"], 3600))
        except subprocess.TimeoutExpired:
            return dict(reproduced=False, why="concrete playback timed out", log=log)
    text = open(log, errors="replace").read()
    tests = []
    for block, tname in TEST_RE.findall(text):
        if "Check for `cover`" in block:
            continue
        if "unwinding assertion" in block:
            continue
        tests.append((tname, block))
    if not tests:
        return dict(reproduced=False, why="kani produced no concrete values for the failed checks", log=log)
    os.makedirs(os.path.join(REPLAYS, prop), exist_ok=True)
    path = os.path.join(REPLAYS, prop, name + ".rs")
    with open(path, "w") as f:
        f.write("// verif-replay: prop=%s group=%s feats=%s harness=%s\n" % (prop, group, ",".join(feats), name))
        f.write("// Solver counterexample(s) from `%s`; values are the little-endian bytes of each kani::any().\n"
                % " ".join(cmd))
        f.write("// Re-run natively: /verif/check --replay %s\n" % path)
        seen = set()
        for tname, block in tests:
            if tname in seen:
                continue
            seen.add(tname)
            f.write(block + "\n")
    dev = run_native(group, feats, path, env, False, HARNESS, TARGET)
    rel = run_native(group, feats, path, env, True, HARNESS, TARGET)
    reproduced = bool(dev.get("ran") and dev.get("failed", 0) > 0)
    return dict(reproduced=reproduced, path=path, tests=len(seen),
                dev=dict(ran=dev.get("ran"), failed=dev.get("failed"), panics=dev.get("panics")),
                release=dict(ran=rel.get("ran"), failed=rel.get("failed"), panics=rel.get("panics")),
                why="" if reproduced else ("native run did not fail: " + dev.get("out", "")[-600:]),
                playback_s=round(time.time() - t0, 1))


def rerun(path, env, HARNESS, TARGET):
    head = open(path).readline()
    m = re.match(r"// verif-replay: prop=(\S+) group=(\S+) feats=(\S+) harness=(\S+)", head)
    if not m:
        print("not a replay file:", path)
        return 2
    prop, group, feats, name = m.groups()
    dev = run_native(group, feats.split(","), os.path.abspath(path), env, False, HARNESS, TARGET)
    print(dev.get("out", ""))
    if dev.get("ran") and dev.get("failed", 0) > 0:
        print("VIOLATION property=%s replay=%s" % (prop, path))
        return 1
    if dev.get("ran"):
        print("replay of %s: counterexample no longer fails on the current tree" % path)
        return 0
    return 2

#[doc(hidden)]
pub mod __private229 {
    #[doc(hidden)]
    pub use crate::private::*;
}

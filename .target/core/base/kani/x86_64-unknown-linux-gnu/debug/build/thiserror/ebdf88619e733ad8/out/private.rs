#[doc(hidden)]
pub mod __private19 {
    #[doc(hidden)]
    pub use crate::private::*;
}

#!/bin/sh
# Offline set-up: pre-build the Kani harness crates (dependencies of every group) so that
# the first check does not pay the cold compile. Safe to re-run; checks rebuild anyway.
set -u
cd "$(dirname "$0")"
export CARGO_NET_OFFLINE=true
export RUSTFLAGS='--cfg libp2p_verif --cfg sha2_backend="soft"'
mkdir -p .target evidence replays
rc=0
for g in harness/*/; do
  g=$(basename "$g")
  ( cd "harness/$g" && cargo kani --target-dir "/verif/.target/$g" -Z stubbing --only-codegen >"/verif/.target/setup-$g.log" 2>&1 ) &
done
wait
for g in harness/*/; do
  g=$(basename "$g")
  if ! grep -q 'Finished' ".target/setup-$g.log"; then echo "setup: group $g did not build"; tail -20 ".target/setup-$g.log"; rc=1; fi
done
exit $rc

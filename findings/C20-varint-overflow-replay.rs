// verif-replay: prop=C20 group=core feats=c20,thorough harness=c20_t_from_bytes_34
// Solver counterexample(s) from `cargo kani --target-dir /verif/.target/core -Z stubbing --features c20,thorough --harness c20::c20_t_from_bytes_34 --exact -Z concrete-playback --concrete-playback=print`; values are the little-endian bytes of each kani::any().
// Re-run natively: /verif/check --replay /verif/replays/C20/c20_t_from_bytes_34.rs
/// Test generated for harness `c20::c20_t_from_bytes_34` 
///
/// Check for `assertion`: ""everything else is rejected with an error""
///
/// # Warning
///
/// Concrete playback tests combined with stubs or contracts is highly
/// experimental, and subject to change.
///
/// The original harness has stubs which are not applied to this test.
/// This may cause a mismatch of non-deterministic values if the stub
/// creates any non-deterministic value.
/// The execution path may also differ, which can be used to refine the stub
/// logic.

#[test]
fn kani_concrete_playback_c20_t_from_bytes_34_12204090399196566362() {
    let concrete_vals: Vec<Vec<u8>> = vec![
        // 18
        vec![18],
        // 151
        vec![151],
        // 128
        vec![128],
        // 128
        vec![128],
        // 128
        vec![128],
        // 128
        vec![128],
        // 128
        vec![128],
        // 128
        vec![128],
        // 128
        vec![128],
        // 128
        vec![128],
        // 64
        vec![64],
        // 128
        vec![128],
        // 128
        vec![128],
        // 128
        vec![128],
        // 128
        vec![128],
        // 128
        vec![128],
        // 128
        vec![128],
        // 128
        vec![128],
        // 128
        vec![128],
        // 64
        vec![64],
        // 128
        vec![128],
        // 128
        vec![128],
        // 128
        vec![128],
        // 128
        vec![128],
        // 128
        vec![128],
        // 128
        vec![128],
        // 128
        vec![128],
        // 128
        vec![128],
        // 64
        vec![64],
        // 128
        vec![128],
        // 128
        vec![128],
        // 128
        vec![128],
        // 128
        vec![128],
        // 128
        vec![128],
    ];
    kani::concrete_playback_run(concrete_vals, c20_t_from_bytes_34);
}
